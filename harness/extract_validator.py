"""Translator: d42/validation/_validator.py -> lean/D42/Gen/ValidatorProg.lean.

Every non-recursive `Validator.visit_*` method, and the prelude (type check, length checks) of the container visitors, is a
straight-line sequence of a handful of idioms. This translator reads the CURRENT source with python `ast`, normalises each
statement with `ast.unparse` (layout, redundant parentheses and quoting disappear) and maps it to one constructor of
`D42.CP.Stmt` (lean/D42/Model/CheckProg.lean). `Props/ValidatorProg.lean` then proves, for every input, that the hand
model equals the interpreter run on these programs. Anything that is not one of the idioms raises ExtractionError — the
checks report that as a broken obligation and go looking for a failing input.
"""
import ast
import os
import re

from . import lake
from .common import REPO, VERIF

SRC = "d42/validation/_validator.py"
OUT = os.path.join(VERIF, "lean", "D42", "Gen", "ValidatorProg.lean")

SCALARS = ["none", "bool", "int", "float", "str", "bytes", "uuid4", "datetime", "date"]
CONTAINERS = ["list", "dict", "any"]

TYPES = {"type(None)": "none", "bool": "bool", "int": "int", "float": "float", "str": "str", "list": "list",
         "dict": "dict", "bytes": "bytes", "UUID": "uuid", "datetime": "datetime", "date": "date"}
PROPS = {"value": "value", "min": "min", "max": "max", "precision": "precision", "len": "len", "min_len": "minLen",
         "max_len": "maxLen", "alphabet": "alphabet", "substr": "substr", "pattern": "pattern"}
KINDS = {"MinValueValidationError": "min", "MaxValueValidationError": "max", "LengthValidationError": "len",
         "MinLengthValidationError": "minLen", "MaxLengthValidationError": "maxLen", "SubstrValidationError": "substr"}
TESTS = {"value < schema.props.{p}": "valLt", "value > schema.props.{p}": "valGt",
         "not value >= schema.props.{p}": "notValGe", "not value <= schema.props.{p}": "notValLe",
         "len(value) != schema.props.{p}": "lenNe", "len(value) < schema.props.{p}": "lenLt",
         "len(value) > schema.props.{p}": "lenGt", "schema.props.{p} not in value": "notIn"}

HEAD = ["result = self._validation_result_factory()",
        "if path is Nil:\n    path = self._path_holder_factory()"]

TYPE_GUARD = re.compile(r"^if \(error := self\._validate_type\(path, value, (?P<t>[\w()]+)\)\):\n"
                        r"    return result\.add_error\(error\)$")
VALUE_GUARD = ("if schema.props.value is not Nil:\n"
               "    if (error := self._validate_value(path, value, schema.props.value)):\n"
               "        return result.add_error(error)")
CHECK = re.compile(r"^if schema\.props\.(?P<p>\w+) is not Nil:\n"
                   r"    if (?P<cond>[^\n]+):\n"
                   r"        (?P<ret>return )?result\.add_error\((?P<k>\w+)\(path, value, schema\.props\.(?P=p)\)\)$")
REGEX_GUARD = ("if schema.props.pattern is not Nil:\n"
               "    match_object = re.search(schema.props.pattern, value)\n"
               "    if match_object is None:\n"
               "        error = RegexValidationError(path, value, schema.props.pattern)\n"
               "        return result.add_error(error)")
ALPHABET_GUARD = ("if schema.props.alphabet is not Nil:\n"
                  "    alphabet = set(schema.props.alphabet)\n"
                  "    for letter in value:\n"
                  "        if letter not in alphabet:\n"
                  "            return result.add_error(AlphabetValidationError(path, value, schema.props.alphabet))")
UUID_GUARD = re.compile(r"^if value\.version != (?P<v>\d+):\n"
                        r"    return result\.add_error\(InvalidUUIDVersionValidationError\(path, value, value\.version, (?P=v)\)\)$")
FLOAT_VALUE = ("if schema.props.value is not Nil:\n"
               "    if schema.props.precision is Nil:\n"
               "        if not isclose(value, schema.props.value):\n"
               "            return result.add_error(ValueValidationError(path, value, schema.props.value))\n"
               "    else:\n"
               "        scale_factor = 10 ** schema.props.precision\n"
               "        try:\n"
               "            scaled_actual = round(value * scale_factor)\n"
               "            scaled_expected = round(schema.props.value * scale_factor)\n"
               "        except (OverflowError, ValueError):\n"
               "            is_equal = bool(value == schema.props.value)\n"
               "        else:\n"
               "            is_equal = isclose(scaled_expected, scaled_actual, rel_tol=0, abs_tol=0)\n"
               "        if not is_equal:\n"
               "            return result.add_error(ValueValidationError(path, value, schema.props.value))")
HELPERS = {
    "_validate_type": "if not isinstance(value, expected_type):\n    return TypeValidationError(path, value, expected_type)\n"
                      "return None",
    "_validate_value": "if value != expected_val:\n    return ValueValidationError(path, value, expected_val)\nreturn None",
}
# first statement after the prelude of a container visitor (the translated part ends there)
PRELUDE_END = {
    "list": "if schema.props.type is Nil and schema.props.elements is Nil:\n    return result",
    "dict": "if schema.props.keys is Nil:\n    return result",
    "any": "if schema.props.types is Nil:\n    return result",
}


class ExtractionError(Exception):
    pass


def _stmt(text, where):
    m = TYPE_GUARD.match(text)
    if m:
        if m["t"] not in TYPES:
            raise ExtractionError(f"{where}: type check against unknown class {m['t']}")
        return f".typeGuard .{TYPES[m['t']]}"
    if text == VALUE_GUARD:
        return ".valueGuard"
    if text == FLOAT_VALUE:
        return ".floatValueGuard"
    if text == REGEX_GUARD:
        return ".regexGuard"
    if text == ALPHABET_GUARD:
        return ".alphabetGuard"
    m = UUID_GUARD.match(text)
    if m:
        return f".uuidVersionGuard {int(m['v'])}"
    m = CHECK.match(text)
    if m:
        p = m["p"]
        if p not in PROPS:
            raise ExtractionError(f"{where}: check on unknown prop {p}")
        test = {k.format(p=p): v for k, v in TESTS.items()}.get(m["cond"])
        if test is None:
            raise ExtractionError(f"{where}: unrecognised condition `{m['cond']}`")
        if m["k"] not in KINDS:
            raise ExtractionError(f"{where}: unknown error class {m['k']}")
        ret = "true" if m["ret"] else "false"
        return f".check .{PROPS[p]} .{test} .{KINDS[m['k']]} {ret}"
    raise ExtractionError(f"{where}: statement is not one of the recognised idioms:\n{text}")


def extract(src_text=None):
    if src_text is None:
        src_text = open(os.path.join(REPO, SRC)).read()
    tree = ast.parse(src_text)
    cls = [n for n in tree.body if isinstance(n, ast.ClassDef) and n.name == "Validator"]
    if len(cls) != 1:
        raise ExtractionError("class Validator not found")
    methods = {n.name: n for n in cls[0].body if isinstance(n, ast.FunctionDef)}
    for name, want in HELPERS.items():
        if name not in methods:
            raise ExtractionError(f"helper {name} missing")
        got = "\n".join(ast.unparse(s) for s in methods[name].body)
        if got != want:
            raise ExtractionError(f"helper {name} is not the recognised idiom:\n{got}")
    progs = {}
    for ty in SCALARS + CONTAINERS:
        fn = methods.get("visit_" + ty)
        if fn is None:
            raise ExtractionError(f"visit_{ty} missing")
        body = [ast.unparse(s) for s in fn.body]
        if body[:2] != HEAD:
            raise ExtractionError(f"visit_{ty}: unexpected method head:\n" + "\n".join(body[:2]))
        body = body[2:]
        out = []
        if ty in SCALARS:
            if not body or body[-1] != "return result":
                raise ExtractionError(f"visit_{ty}: does not end with `return result`")
            for i, text in enumerate(body[:-1]):
                out.append(_stmt(text, f"visit_{ty} statement {i + 3}"))
        else:
            if PRELUDE_END[ty] not in body:
                raise ExtractionError(f"visit_{ty}: the statement that ends the prelude was not found")
            for i, text in enumerate(body[:body.index(PRELUDE_END[ty])]):
                out.append(_stmt(text, f"visit_{ty} statement {i + 3}"))
        progs[ty] = out
    return progs


def render(progs):
    lines = ["/- GENERATED by harness/extract_validator.py from d42/validation/_validator.py — do not edit. -/",
             "import D42.Model.CheckProg", "", "namespace D42.Gen.ValidatorProg", "open D42 D42.CP", ""]
    for ty in SCALARS + CONTAINERS:
        name = ty + ("Prelude" if ty in CONTAINERS else "Prog")
        lines.append(f"def {name} : List Stmt :=")
        lines.append("  [" + ",\n   ".join(progs[ty]) + "]")
        lines.append("")
    lines.append("end D42.Gen.ValidatorProg")
    return "\n".join(lines) + "\n"


def run():
    """regenerate Gen/ValidatorProg.lean; (ok, message). On failure the file is left as it was."""
    try:
        content = render(extract())
    except (ExtractionError, SyntaxError, OSError) as e:
        return False, f"{type(e).__name__}: {e}"
    with lake.Lock():
        lake.write_if_changed(OUT, content)
    return True, ""


if __name__ == "__main__":
    print(run())
