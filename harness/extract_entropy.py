"""Translator (C17): every place in the library's source where a value could come from something other than the seeded
generator or the arguments — -> lean/D42/Gen/Entropy.lean:

  random     a call of a function of the `random` MODULE (the process-wide generator)            — allowed inside class Random only
  rng        construction of another generator (random.Random(...), SystemRandom, secrets, os.urandom)
  clock      datetime.now / utcnow / today, date.today, time.*                                       — the clock (the property excludes
  uuid       uuid1 / uuid4 / uuid.* calls                                                            —  unfixed uuid4 / datetime / date)
  hash       hash(...) / id(...) / object.__hash__ used for a value
  setOrder   a set (display, comprehension, set()/frozenset(), a set operator on such) that is ITERATED or joined or indexed or
             turned into a sequence — its order depends on PYTHONHASHSEED; a set used only on the right of `in` / `not in` is not listed

`Props/C17Entropy.lean` decides on the generated table that every row is one of the listed, justified ones (the draws of
class Random; the three clock / uuid draws of the generator; the recorded finding K1)."""
import ast
import os

from . import lake
from .common import REPO, VERIF
from .extract_effects import _functions, _own_nodes, _lit

OUT = os.path.join(VERIF, "lean", "D42", "Gen", "Entropy.lean")
RNG_NAMES = {"Random", "SystemRandom"}
CLOCK_ATTRS = {"now", "utcnow", "today", "time", "time_ns", "monotonic", "perf_counter", "fromtimestamp"}
UUID_FUNCS = {"uuid1", "uuid3", "uuid4", "uuid5", "getnode"}


class ExtractionError(Exception):
    pass


def _is_set_expr(e, setnames):
    if isinstance(e, (ast.Set, ast.SetComp)):
        return True
    if isinstance(e, ast.Call) and isinstance(e.func, ast.Name) and e.func.id in ("set", "frozenset"):
        return True
    if isinstance(e, ast.Name) and e.id in setnames:
        return True
    if isinstance(e, ast.BinOp) and isinstance(e.op, (ast.Sub, ast.BitOr, ast.BitAnd, ast.BitXor)):
        return _is_set_expr(e.left, setnames) or _is_set_expr(e.right, setnames)
    if isinstance(e, ast.Call) and isinstance(e.func, ast.Attribute) and e.func.attr in ("union", "difference", "intersection",
                                                                                           "symmetric_difference", "copy"):
        return _is_set_expr(e.func.value, setnames)
    return False


def extract():
    rows = []
    base = os.path.join(REPO, "d42")
    for root, dirs, files in os.walk(base):
        dirs.sort()
        for fn_ in sorted(files):
            if not fn_.endswith(".py"):
                continue
            path = os.path.join(root, fn_)
            rel = os.path.relpath(path, REPO)
            if rel.startswith("d42/migration") or rel == "d42/_main.py":
                continue
            try:
                tree = ast.parse(open(path, encoding="utf-8").read())
            except SyntaxError as e:
                raise ExtractionError(f"{rel}: {e}")
            units = _functions(tree) + [("<module>", tree)]
            for qual, fn in units:
                nodes = list(_own_nodes(fn)) if qual != "<module>" else [
                    n for top in tree.body if not isinstance(top, (ast.FunctionDef, ast.AsyncFunctionDef, ast.ClassDef))
                    for n in ast.walk(top)]
                setnames = set()
                while True:      # names that are bound to a set somewhere in this unit (to a fixpoint: sets built from sets)
                    before = len(setnames)
                    for n in nodes:
                        if isinstance(n, ast.Assign) and len(n.targets) == 1 and isinstance(n.targets[0], ast.Name) \
                                and _is_set_expr(n.value, setnames):
                            setnames.add(n.targets[0].id)
                        elif isinstance(n, ast.AugAssign) and isinstance(n.target, ast.Name) and _is_set_expr(n.value, setnames):
                            setnames.add(n.target.id)
                    if len(setnames) == before:
                        break
                for n in nodes:
                    if isinstance(n, ast.Call):
                        f = n.func
                        if isinstance(f, ast.Attribute) and isinstance(f.value, ast.Name) and f.value.id == "random":
                            if f.attr in RNG_NAMES:
                                rows.append((rel, qual, "rng", ast.unparse(f)))
                            else:
                                rows.append((rel, qual, "random", "random." + f.attr))
                        elif isinstance(f, ast.Name) and f.id in RNG_NAMES | {"urandom", "token_bytes", "token_hex", "randbits"}:
                            rows.append((rel, qual, "rng", f.id))
                        elif isinstance(f, ast.Attribute) and f.attr in ("urandom", "token_bytes", "token_hex", "SystemRandom"):
                            rows.append((rel, qual, "rng", ast.unparse(f)))
                        elif isinstance(f, ast.Attribute) and f.attr in CLOCK_ATTRS and \
                                ast.unparse(f.value).split(".")[-1] in ("datetime", "date", "time"):
                            rows.append((rel, qual, "clock", ast.unparse(f)))
                        elif (isinstance(f, ast.Name) and f.id in UUID_FUNCS) or \
                                (isinstance(f, ast.Attribute) and f.attr in UUID_FUNCS):
                            rows.append((rel, qual, "uuid", ast.unparse(f)))
                        elif isinstance(f, ast.Name) and f.id in ("hash", "id"):
                            rows.append((rel, qual, "hash", f.id))
                        # a set handed to something that reads it in order
                        ordered_consumer = (isinstance(f, ast.Attribute) and f.attr == "join") or \
                            (isinstance(f, ast.Name) and f.id in ("list", "tuple", "enumerate", "iter", "next", "zip", "map", "filter", "str", "repr")) or \
                            (isinstance(f, ast.Attribute) and f.attr in ("random_choice", "choice", "extend", "random_str"))
                        if ordered_consumer:
                            for a in n.args:
                                if _is_set_expr(a, setnames):
                                    rows.append((rel, qual, "setOrder", ast.unparse(n)[:90]))
                    elif isinstance(n, (ast.For, ast.comprehension)) and _is_set_expr(n.iter, setnames):
                        rows.append((rel, qual, "setOrder", "for … in " + ast.unparse(n.iter)[:70]))
                    elif isinstance(n, ast.Attribute) and n.attr == "__hash__" and isinstance(n.ctx, ast.Load) \
                            and not isinstance(n.value, ast.Name):
                        rows.append((rel, qual, "hash", ast.unparse(n)))
    return sorted(set(rows))


def render(rows):
    L = ["/- GENERATED by harness/extract_entropy.py from every file under d42/ (migration tool aside) — do not edit.",
         "   One row per place where a value could come from something other than the seeded generator or the arguments. -/",
         "namespace D42.Gen.Entropy", "",
         "structure Row where", "  file : String", "  func : String", "  kind : String", "  what : String",
         "deriving DecidableEq, Repr", "", "def table : List Row := ["]
    L.append(",\n".join(f"  ⟨{_lit(a)}, {_lit(b)}, {_lit(c)}, {_lit(d)}⟩" for a, b, c, d in rows))
    L += ["]", "", "end D42.Gen.Entropy"]
    return "\n".join(L) + "\n"


def run():
    try:
        content = render(extract())
    except (ExtractionError, OSError) as e:
        return False, f"{type(e).__name__}: {e}"
    with lake.Lock():
        lake.write_if_changed(OUT, content)
    return True, ""


if __name__ == "__main__":
    print(run())
