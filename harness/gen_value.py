"""Value generators: the hostile zoo, one-step perturbations at every depth, boundary values."""
import datetime
import decimal
import fractions
import math
import uuid

from .gen_schema import DS, DTS, U4, U_NOT4


class Opaque:
    def __repr__(self):
        return "<Opaque>"


class MyStr(str):
    pass


class MyInt(int):
    pass


class MyList(list):
    pass


class MyDict(dict):
    pass


def zoo():
    """fresh hostile values each call (some are mutable / identity-sensitive)"""
    return [None, True, False, 0, 1, -1, 2 ** 70, -2 ** 70, 0.0, -0.0, 1.5, float("inf"), float("-inf"),
            float("nan"), 1e308, -1e308, 5e-324, "", "abc", "é☃", b"", b"ab", [], [1], [[]], {}, {"a": 1},
            (1,), (), {1}, frozenset(), bytearray(b"x"), decimal.Decimal("1.5"), fractions.Fraction(1, 3),
            complex(1, 2), U4[1], U_NOT4[0], U_NOT4[1], DTS[1], DS[1], datetime.time(1, 2),
            datetime.timedelta(1), Opaque(), ..., MyStr("abc"), MyInt(3), MyList([1]), MyDict(a=1),
            {None: 1, (1, 2): 2, 3: 3}, range(3), object, len,
            {float("nan"): 1, float("nan"): 2}, {Opaque(): 1, Opaque(): 2}, [float("nan"), float("nan")],
            # type edges: aware vs naive datetimes, lone surrogates, combining marks, case-folding pairs, denormals, huge ints
            datetime.datetime(2024, 2, 29, 12, 30, tzinfo=datetime.timezone.utc),
            datetime.datetime(2024, 2, 29, 12, 30, tzinfo=datetime.timezone(datetime.timedelta(hours=5, minutes=30))),
            datetime.datetime.min, datetime.date.max, "\ud800", "e\u0301", "\u00e9", "\u00df", "SS", "\x00", "a\x00b",
            5e-324, -5e-324, 2.2250738585072014e-308, 1.7976931348623157e308, 10 ** 400, -10 ** 400, 2 ** 1024,
            {"id": 1, ...: "x"}, {...: ...}, {...: 1, None: 2}, [{...: ...}], bytearray(b""), memoryview(b"ab"), {1: "a", None: "b", (1, 2): "c", 1.5: "d", True: "e"}, [[[[[[[[[[1]]]]]]]]]],
            {"a": {"a": {"a": {"a": {"a": {"a": 1}}}}}}]


def perturb(v, rnd, zoo_n=3):
    """all one-step perturbations of v at every depth (drop/add/replace element or key,
    off-by-one on scalars, wrong type from the zoo)."""
    out = []

    def rec(x, put):
        z = zoo()
        for y in rnd.sample(z, zoo_n):
            put(y)
        if isinstance(x, bool):
            put(not x)
            put(int(x))
        elif isinstance(x, int):
            put(x + 1)
            put(x - 1)
            put(float(x) if abs(x) < 2 ** 53 else x * 2)
            if x in (0, 1):
                put(bool(x))
        elif isinstance(x, float):
            if math.isfinite(x):
                put(x + 0.5)
                put(x - 0.5)
                put(x * (1 + 1e-12))
                put(x * (1 + 3e-9) if x else 1e-300)
                put(math.nextafter(x, math.inf))
                put(math.nextafter(x, -math.inf))
            put(float("nan"))
            put(float("inf"))
        elif isinstance(x, str):
            put(x + "a")
            put(x[1:])
            put(x[:-1])
            put(x + "!")
            put("a" + x)
            put(x.upper())
            put(x.encode("utf-8", "surrogatepass"))
        elif isinstance(x, bytes):
            put(x + b"a")
            put(x[1:])
            put(x.decode("latin1"))
        elif isinstance(x, uuid.UUID):
            put(U4[0] if x != U4[0] else U4[1])
            put(U_NOT4[0])
            put(str(x))
        elif isinstance(x, datetime.datetime):
            try:
                put(x + datetime.timedelta(seconds=1))
            except OverflowError:
                put(x - datetime.timedelta(seconds=1))
            put(x.date())
        elif isinstance(x, datetime.date):
            try:
                put(x + datetime.timedelta(days=1))
            except OverflowError:
                put(x - datetime.timedelta(days=1))
            put(datetime.datetime(x.year, x.month, x.day))
        elif isinstance(x, list):
            put(x + [None])
            put([None] + x)
            if x:
                put(x[1:])
                put(x[:-1])
                put(x + [x[-1]])
                put(x[::-1])
            for i in range(len(x)):
                rec(x[i], lambda nv, i=i: put(x[:i] + [nv] + x[i + 1:]))
                put(x[:i] + x[i + 1:])
        elif isinstance(x, dict):
            put({**x, "zz": 1})
            put({**x, None: 1} if None not in x else {**x, 5: 5})
            for key in list(x):
                put({k: w for k, w in x.items() if k != key})
                rec(x[key], lambda nv, key=key: put({**x, key: nv}))

    rec(v, out.append)
    return out


def inject(v, rnd, bad):
    """put `bad` at one random position inside v (or replace v when it has no positions)"""
    positions = []

    def walk(x, path):
        positions.append(path)
        if isinstance(x, list):
            for i, y in enumerate(x):
                walk(y, path + [i])
        elif isinstance(x, dict):
            for k, y in x.items():
                walk(y, path + [k])
    walk(v, [])
    path = rnd.choice(positions)

    def put(x, path):
        if not path:
            return bad
        if isinstance(x, list):
            return [put(y, path[1:]) if i == path[0] else y for i, y in enumerate(x)]
        return {k: (put(y, path[1:]) if k == path[0] else y) for k, y in x.items()}
    return put(v, path)


def is_plain(v):
    """no `...`, and only the value kinds from_native supports"""
    if v is None or isinstance(v, (bool, int, float, str, bytes, datetime.date)):
        return True
    if isinstance(v, uuid.UUID):
        return v.version == 4
    if isinstance(v, list):
        return all(is_plain(x) for x in v)
    if isinstance(v, dict):
        # the DSL's own markers as keys (`optional(k)`, `...`) make a dict a declaration, not plain data
        return all(is_plain(x) for x in v.values()) and not any(k is Ellipsis or type(k).__name__ == "optional" for k in v)
    return False


def aliased_variants(v, limit=12):
    """copies of v in which one container member is replaced by THE SAME OBJECT as another member (at any depth): the value
    differs from v (the two members differed), but one object now sits at two positions"""
    import copy
    out = []

    def rec(x, rebuild):
        if len(out) >= limit:
            return
        items = list(x.items()) if isinstance(x, dict) else (list(enumerate(x)) if isinstance(x, list) else [])
        conts = [(k, m) for k, m in items if isinstance(m, (list, dict))]
        for k1, m1 in conts:
            for k2, m2 in conts:
                if k1 != k2 and type(m1) is type(m2) and m1 != m2:
                    c = copy.deepcopy(x)
                    c[k2] = c[k1]                   # the same object twice
                    out.append(rebuild(c))
                    if len(out) >= limit:
                        return
        for k, m in conts:
            def rb(c, k=k, x=x):
                y = copy.deepcopy(x)
                y[k] = c
                return rebuild(y)
            rec(m, rb)
    rec(v, lambda c: c)
    return out


def has_placeholder(v):
    """`...` anywhere (value or key), or the DSL's `optional(k)` marker as a key: not a plain value in the sense of C04/C05"""
    if v is Ellipsis:
        return True
    if isinstance(v, (list, tuple)):
        return any(has_placeholder(x) for x in v)
    if isinstance(v, dict):
        return any(k is Ellipsis or type(k).__name__ == "optional" or has_placeholder(x) for k, x in v.items())
    return False


def has_nan(v):
    if isinstance(v, float):
        return v != v
    if isinstance(v, list):
        return any(has_nan(x) for x in v)
    if isinstance(v, dict):
        return any(has_nan(x) for x in v.values())
    return False
