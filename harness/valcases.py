"""Case batches for the validator-family checks: (schema, value) pairs that are mostly valid,
plus every one-step perturbation, boundary values and a separate hostile stream."""
from . import gen_value, scripted_random
from .gen_schema import SchemaGen
from .valcorr import ValCase


def schema_batch(ctx, n, **opts):
    depth = opts.pop("max_depth", ctx.n(3, 4))
    g = SchemaGen(ctx.rnd, max_depth=depth, **opts)
    out = []
    for _ in range(n):
        try:
            out.append(g.top())
        except RecursionError:
            continue
    for k, v in g.stats.items():
        ctx.count("schema:" + k, v)
    return out


def generated_values(ctx, s, policies=("lo", "hi", "alt", "rnd")):
    vals = []
    for pol in policies:
        (kind, v), log = scripted_random.generate(s, scripted_random.make_policy(pol, ctx.rnd))
        if kind == "ok":
            vals.append(v)
    return vals


def _size(v):
    if isinstance(v, (list, tuple)):
        return len(v) + sum(_size(x) for x in v[:64])
    if isinstance(v, dict):
        return len(v) + sum(_size(x) for x in list(v.values())[:64])
    if isinstance(v, (str, bytes)):
        return len(v)
    return 1


def value_cases(ctx, s, w, *, perturb=12, zoo=6, inject=4, gens=("lo", "hi", "rnd"), boundary=24):
    cases = [ValCase(s, w, "witness")]
    if _size(w) > 200:
        # a large witness (hundreds of elements / characters): its own boundary — one fewer, one more, one replaced — is what
        # matters; the generic perturbation of every position would cost O(n^2)
        for v in ((w[:-1], w + w[:1], w[:1] + w[:-1]) if isinstance(w, (list, str)) else ()):
            cases.append(ValCase(s, v, "boundary"))
        if isinstance(w, dict):
            for k, x in w.items():
                if isinstance(x, (list, str)) and len(x) > 0:
                    cases += [ValCase(s, {**w, k: x[:-1]}, "boundary"), ValCase(s, {**w, k: x + x[:1]}, "boundary")]
        return cases
    try:
        for v in boundary_values(s, w, boundary):
            cases.append(ValCase(s, v, "boundary"))
    except RecursionError:
        pass
    vs = generated_values(ctx, s, gens)
    for v in vs:
        cases.append(ValCase(s, v, "generated"))
    base = [w] + vs[:1]
    for b in base:
        ps = gen_value.perturb(b, ctx.rnd)
        if len(ps) > perturb:
            ps = ctx.rnd.sample(ps, perturb)
        for v in ps:
            cases.append(ValCase(s, v, "perturbed"))
    z = gen_value.zoo()
    for v in ctx.rnd.sample(z, min(zoo, len(z))):
        cases.append(ValCase(s, v, "zoo"))
    for _ in range(inject):
        bad = ctx.rnd.choice(gen_value.zoo())
        try:
            cases.append(ValCase(s, gen_value.inject(w, ctx.rnd, bad), "injected"))
        except Exception:
            pass
    return cases


# ---------------------------------------------------------------------------------------------
# boundary values of every numeric / length bound, at every depth

def _scalar_boundaries(s):
    import math
    from niltype import Nil
    from d42.declaration.types import FloatSchema, IntSchema, StrSchema
    out = []
    p = s.props

    def g(n):
        v = p.get(n)
        return None if v is Nil else v
    if isinstance(s, IntSchema):
        for b in (g("value"), g("min"), g("max")):
            if b is not None:
                out += [int(b) - 1, int(b), int(b) + 1]
                if int(b) in (0, 1):
                    out += [bool(b)]
        # ints beyond the float range (any float conversion raises OverflowError), on both sides
        out += [2 ** 1024, -2 ** 1024, 10 ** 400, -10 ** 400]
    elif isinstance(s, FloatSchema):
        prec = g("precision")
        for b in (g("value"), g("min"), g("max")):
            if isinstance(b, float) and math.isfinite(b):
                out += [b * 2, b / 2, -b, float("inf"), float("-inf"),
                        b, math.nextafter(b, math.inf), math.nextafter(b, -math.inf), b * (1 + 5e-10), b * (1 - 5e-10),
                        b * (1 + 2e-9), b * (1 - 2e-9), b + 1e-9, b - 1e-9]
                if prec is not None:
                    q = 10.0 ** (-prec)
                    out += [b + 0.49 * q, b - 0.49 * q, b + 0.51 * q, b - 0.51 * q, b + q, b - q]
    elif isinstance(s, StrSchema):
        al = g("alphabet")
        ch = (al[0] if al else "a") if al != "" else "a"
        sub = g("substr") or ""
        for b in (g("len"), g("min_len"), g("max_len")):
            if b is not None:
                for n in (b - 1, b, b + 1):
                    if n >= 0:
                        pad = max(0, n - len(sub))
                        out.append(sub + ch * pad if len(sub) <= n else ch * n)
    return out


def boundary_values(s, w, limit=40):
    """values equal to the witness except that one scalar position sits on / next to a declared bound"""
    from niltype import Nil
    from d42.declaration.types import (AnySchema, DictSchema, GenericTypeAliasSchema, ListSchema)
    from . import custom
    out = []

    def rec(s, w, put):
        if len(out) >= limit:
            return
        if isinstance(s, custom.FWD_CLASSES):
            return rec(s.props.inner, w, put)
        if isinstance(s, GenericTypeAliasSchema):
            return rec(s.props.type, w, put)
        if isinstance(s, AnySchema):
            ts = s.props.get("types")
            if ts is not Nil:
                for t in ts:
                    rec(t, w, put)
            return
        if isinstance(s, DictSchema):
            keys = s.props.get("keys")
            if keys is Nil or not isinstance(w, dict):
                return
            for k, (sub, opt) in keys.items():
                if k is Ellipsis or k not in w:
                    continue
                rec(sub, w[k], lambda nv, k=k: put({**w, k: nv}))
            return
        if isinstance(s, ListSchema):
            if not isinstance(w, list):
                return
            t, els = s.props.get("type"), s.props.get("elements")
            ln = [s.props.get(n) for n in ("len", "min_len", "max_len")]
            for b in ln:
                if b is not Nil and w:
                    for n in (b - 1, b, b + 1):
                        if n >= 0:
                            put((w * (n // len(w) + 1))[:n])
            if t is not Nil:
                for i in range(min(len(w), 3)):
                    rec(t, w[i], lambda nv, i=i: put(w[:i] + [nv] + w[i + 1:]))
            elif els is not Nil:
                core = [e for e in els if e is not Ellipsis]
                lead = len(els) >= 1 and els[0] is Ellipsis
                trail = len(els) >= 2 and els[-1] is Ellipsis
                if not lead:
                    for i, e in enumerate(core):
                        if i < len(w):
                            rec(e, w[i], lambda nv, i=i: put(w[:i] + [nv] + w[i + 1:]))
                elif not trail:
                    off = len(w) - len(core)
                    for i, e in enumerate(core):
                        if 0 <= off + i < len(w):
                            rec(e, w[off + i], lambda nv, j=off + i: put(w[:j] + [nv] + w[j + 1:]))
            return
        for b in _scalar_boundaries(s):
            put(b)

    rec(s, w, out.append)
    return out[:limit]


def absent_key_probes(s, v, limit=40):
    """values that add, somewhere inside `v`, a key the schema DECLARES (required or optional) but `v` does not give, with
    values of several kinds — the probes that tell whether an operation on (schema, v) kept the constraint on that key"""
    from niltype import Nil
    from d42.declaration.types import AnySchema, DictSchema, GenericTypeAliasSchema, ListSchema
    out = []

    def rec(sc, x, put):
        if len(out) >= limit:
            return
        if isinstance(sc, GenericTypeAliasSchema):
            return rec(sc.props.type, x, put)
        if isinstance(sc, AnySchema):
            ts = sc.props.get("types")
            for t in ([] if ts is Nil else ts):
                rec(t, x, put)
            return
        if isinstance(sc, DictSchema) and isinstance(x, dict):
            keys = sc.props.get("keys")
            if keys is Nil:
                return
            for k, (sub, _opt) in keys.items():
                if k is Ellipsis:
                    continue
                if k not in x:
                    for bad in (5, "x", None, [], {}, 1.5):
                        put({**x, k: bad})
                else:
                    rec(sub, x[k], lambda nv, k=k: put({**x, k: nv}))
            return
        if isinstance(sc, ListSchema) and isinstance(x, list):
            t = sc.props.get("type")
            els = sc.props.get("elements")
            for i, xi in enumerate(x):
                sub = t if t is not Nil else None
                if sub is None and els is not Nil:
                    conc = [e for e in els if e is not Ellipsis]
                    sub = conc[i] if i < len(conc) and (len(els) == len(conc) or els[-1] is Ellipsis) else (conc[-1] if conc else None)
                if sub is not None:
                    rec(sub, xi, lambda nv, i=i: put(x[:i] + [nv] + x[i + 1:]))
    rec(s, v, out.append)
    return out[:limit]


CORPUS_STATS = {}


def scalar_corpus():
    """fixed (schema, witness) pairs with tight / coinciding bounds; run first by the validator-family checks.
    Every entry is built separately: one whose construction raises on the tree under test is skipped and counted
    (CORPUS_STATS) instead of taking the whole check down."""
    from d42 import schema
    out = []

    def add(expr, w, **env):
        try:
            out.append((eval(expr, {"schema": schema, **env}), w))  # noqa: S307 - fixed expressions below
        except Exception as e:  # noqa: BLE001
            k = "corpus_build_exception:" + type(e).__name__
            CORPUS_STATS[k] = CORPUS_STATS.get(k, 0) + 1

    for v in (0, 5, -3):
        for e in ("schema.int(v)", "schema.int(v).min(v)", "schema.int(v).max(v)", "schema.int(v).min(v).max(v)",
                  "schema.int.min(v).max(v)", "schema.int.min(v)", "schema.int.max(v)", "schema.int.max(v).min(v)",
                  "schema.int(v).max(v).min(v)"):
            add(e, v, v=v)
    for v in (10 ** 9, 2 ** 53, 10 ** 12 + 7, -2 ** 63, 10 ** 400, True, False):
        for e in ("schema.int(v)", "schema.int(v).min(v)", "schema.int.min(v)", "schema.int.max(v)", "schema.list([schema.int(v), ...])",
                  'schema.dict({"n": schema.any(schema.int(v), schema.none)})'):
            add(e, {"n": v} if "dict" in e else ([v] if "list" in e else v), v=v)
    for v in (2.0, 0.1, -1.5, 1e10):
        for e in ("schema.float(v)", "schema.float(v).min(v)", "schema.float(v).max(v)", "schema.float(v).min(v).max(v)",
                  "schema.float.min(v).max(v)", "schema.float.min(v)", "schema.float.max(v)", "schema.float(v).precision(1)",
                  "schema.float(v).precision(1).max(v)", "schema.float(v).precision(2).min(v)", "schema.float.min(v).precision(3)"):
            add(e, v, v=v)
    # infinite bounds: satisfiable (the infinity itself, or anything on its side, conforms)
    for v, w in ((float("inf"), float("inf")), (float("-inf"), float("-inf"))):
        for e in ("schema.float.min(v)" if v > 0 else "schema.float.max(v)", "schema.float.max(v)" if v > 0 else "schema.float.min(v)",
                  "schema.float.max(v).precision(2)" if v > 0 else "schema.float.min(v).precision(2)",
                  "schema.float.min(1.0).max(v)" if v > 0 else "schema.float.max(1.0).min(v)"):
            add(e, w if ("min(v)" in e and v > 0 and "1.0" not in e) or ("max(v)" in e and v < 0 and "1.0" not in e) else 1.0, v=v)
    # fixed floats whose product with 10**precision leaves the float range (the validator's fallback comparison)
    for v in (1e300, -1e300, 1e307, 1.7e308, float("inf"), float("-inf")):
        for e in ("schema.float(v).precision(15)", "schema.float(v).precision(2)", "schema.float(v).precision(1).min(v)",
                  'schema.dict({"x": schema.float(v).precision(3)})', "schema.list([schema.float(v).precision(10), ...])"):
            add(e, {"x": v} if "dict" in e else ([v] if "list" in e else v), v=v)
    # the library's own `...` used as DATA: a key of the value, under relaxed and strict dicts
    for e, w in (('schema.dict({"id": schema.int, ...: ...})', {"id": 1, ...: "x"}), ("schema.dict({...: ...})", {...: ...}),
                 ('schema.dict({"id": schema.int})', {"id": 1}), ('schema.list(schema.dict({"a": schema.int, ...: ...}))', [{"a": 1, ...: 2}, {"a": 2}]),
                 ('schema.any(schema.dict({"k": schema.str, ...: ...}), schema.none)', {"k": "s", ...: None}), ("schema.dict", {...: 1})):
        add(e, w)
    # precision at and beyond what a double carries, denormals, bounds equal to each other and to the value
    for v in (0.1 + 0.2, 1 / 3, 5e-324, 2.5e-320, 123456789.123456789, 1e22):
        for e in ("schema.float(v).precision(15)", "schema.float(v).precision(16)", "schema.float(v).precision(20)", "schema.float(v).precision(0)",
                  "schema.float.min(v).max(v)", "schema.float.min(v).max(v).precision(17)", "schema.float(v).min(v).max(v).precision(3)"):
            add(e, v, v=v)
    # fixed values with more digits than the declared precision: rounding ties and bounds that coincide with the value
    for v in (1.115, 2.675, 3.149, 3.141, 0.125, -0.335, 1e-9, 123456.789):
        for e in ("schema.float(v).precision(2)", "schema.float(v).precision(1)", "schema.float(v).precision(0)",
                  "schema.float(v).max(v).precision(2)", "schema.float(v).min(v).precision(2)",
                  "schema.float(v).precision(2).min(v).max(v)", "schema.float.precision(2).max(v) % v",
                  "schema.float.precision(1).min(v) % v"):
            add(e, v, v=v)
    for v in ("", "ab", "banana"):
        for e in ("schema.str(v)", "schema.str(v).len(n)", "schema.str.len(n)", "schema.str.len(n, ...)", "schema.str.len(..., n)",
                  "schema.str.len(n, n)", "schema.str(v).len(n, ...)", "schema.str(v).len(..., n)"):
            add(e, v, v=v, n=len(v))
    for v in (b"", b"ab"):
        for e in ("schema.bytes(v)", "schema.list([schema.bytes(v)])"):
            add(e, [v] if "list" in e else v, v=v)
    # element lists whose concrete elements accept anything (untyped any, alias of it, a union with it), in every form
    for e, w in [("schema.list([schema.any, schema.int])", [None, 1]), ("schema.list([schema.any, ...])", ["x"]),
                 ('schema.list([..., schema.alias("A", schema.any)])', [1, 2]),
                 ("schema.list([..., schema.int | schema.any, ...])", [0, "s", 0]),
                 ('schema.dict({"k": schema.list([schema.str, schema.any, schema.any]).len(3)})', {"k": ["a", 1, None]}),
                 ("schema.list([schema.list([schema.any]), schema.any(schema.any, schema.none)])", [[1], None])]:
        add(e, w)
    # alias of an alias (and of a union) below the root: errors must keep the path of the position they sit at
    for e, w in [('schema.dict({"id": schema.alias("a", schema.alias("b", schema.int.min(0)))})', {"id": 1}),
                 ('schema.list(schema.alias("a", schema.alias("b", schema.alias("c", schema.str.len(1)))))', ["x", "y"]),
                 ('schema.dict({"k": schema.list([schema.none, schema.alias("a", schema.alias("b", schema.dict({"n": schema.int})))])})',
                  {"k": [None, {"n": 1}]}),
                 ('schema.list([..., schema.alias("u", schema.alias("v", schema.int) | schema.none), ...])', [0, None, 0]),
                 ('schema.alias("r", schema.alias("s", schema.list(schema.alias("t", schema.alias("q", schema.int)))))', [1, 2])]:
        add(e, w)
    # strings with line breaks and separators where a union reports them (one rendered line per error)
    for v in ("first line\nsecond line", "a\r\nb", "x\n - y", "\u2028sep", "tab\there"):
        add("schema.any(schema.int, schema.none, schema.str(v))", v, v=v)
        add('schema.dict({"f": schema.any(schema.int, schema.str(v))})', {"f": v}, v=v)
        add("schema.list(schema.any(schema.int, schema.str(v)))", [v, 1], v=v)
    # sizes and numbers past CPython's small-int cache (-5..256): equal but not identical objects
    for n in (256, 257, 300, 1000):
        add("schema.list(schema.int).len(n)", [0] * n, n=n)
        add("schema.list.len(n, n)", [None] * n, n=n)
        add("schema.str.len(n)", "x" * n, n=n)
        add("schema.str.len(n, ...)", "x" * n, n=n)
        add("schema.list([schema.int, ...]).len(n)", [1] + [None] * (n - 1), n=n)
        add("schema.int(n)", n, n=n)
        add("schema.int.min(n).max(n)", n, n=n)
        add('schema.dict({"xs": schema.list(schema.none).len(..., n)})', {"xs": [None] * n}, n=n)
    # alphabets made of characters that are special somewhere (regex classes, format strings, shell, ...)
    for al in ("+-*/", "_-.", "9-0", "z-a", "abc-_", "-a", "a-", "]^\\", "[a-z]", "^abc", "\\d", ".", "a.b", "{}%s", "\n\t", "é☃", "$(x)", "*?"):
        for val in ("", al, al[::-1], al[:1] * 3, al + "Q"):
            add("schema.str.alphabet(al)", val, al=al)
        add('schema.dict({"s": schema.list([..., schema.str.alphabet(al), ...])})', {"s": ["", al, 1]}, al=al)
    # patterns whose text needs escaping when printed: backslashes together with control characters and both quote kinds
    for pt in ("\\w+\t\\d+", "it\'s \"x\"\\d", "\\\\", "a\nb", "\\.\x00", "\\d{2}\xa0", "'\\w'", '"\\s"x\'', "\\\n", "tab\there"):
        add("schema.str.regex(pt)", "", pt=pt)
        add('schema.dict({optional("k"): schema.list([schema.str.regex(pt), ...]).len(1, 3)})', {}, pt=pt, optional=__import__("d42").optional)
    for e, w in [('schema.str.alphabet("ab").len(2)', "ab"), ('schema.str.contains("an").len(2, 6)', "banana"),
                 ('schema.str.alphabet("abn").contains("an")', "banana"), ('schema.str.regex(r"^a+$")', "aa"),
                 # unions whose alternatives are of the same kind and differ only below the top level
                 ("schema.any(schema.list(schema.int), schema.list(schema.str))", ["a", "b"]),
                 ("schema.any(schema.list(schema.str), schema.list(schema.int))", [1]),
                 ('schema.any(schema.dict({"id": schema.int}), schema.dict({"id": schema.str}))', {"id": "x1"}),
                 ('schema.any(schema.alias("uint", schema.int.min(0)), schema.alias("name", schema.str.len(1, ...)))', "Bob"),
                 ("schema.any(schema.list([schema.int]), schema.list([schema.str, schema.str]), schema.list([schema.none]))", [None]),
                 ('schema.dict({"m": schema.any(schema.dict({"k": schema.list(schema.int)}), '
                  'schema.dict({"k": schema.list(schema.bool)}))})', {"m": {"k": [True]}}),
                 ("schema.any(schema.int.min(5), schema.int.max(0))", -1), ("schema.any(schema.str.len(2), schema.str.len(3))", "abc"),
                 # relaxed dicts whose `...: ...` entry is not the last one (declared so, or produced by +)
                 ('schema.dict({...: ..., "id": schema.int})', {"id": 1, "x": 2}),
                 ('schema.dict({"a": schema.str, ...: ..., "id": schema.int, optional("o"): schema.none})', {"a": "s", "id": 1}),
                 ('schema.dict({"id": schema.int, ...: ...}) + schema.dict({"name": schema.str, optional("t"): schema.list})',
                  {"id": 1, "name": "n"})]:
        add(e, w, optional=__import__("d42").optional)
    # SCALE: deep nesting, wide containers, many alternatives, long chains of operations (entry by entry, like the rest)
    from d42 import optional as _opt, substitute as _subst
    from d42.utils import make_required as _mr

    def deep(n, leaf, lw):
        sc, w = leaf, lw
        for i in range(n):
            k = i % 6
            if k == 0:
                sc, w = schema.dict({"k%d" % i: sc, _opt("o"): schema.int}), {"k%d" % i: w}
            elif k == 1:
                sc, w = schema.list(sc), [w, w]
            elif k == 2:
                sc, w = schema.list([schema.none, sc, ...]), [None, w, 1]
            elif k == 3:
                sc, w = schema.any(schema.none, schema.str, sc), w
            elif k == 4:
                sc, w = schema.alias("L%d" % i, sc), w
            else:
                sc, w = schema.list([..., sc, ...]), [0, w, 0]
        return sc, w
    for n in (4, 5, 6, 8, 12):
        for leaf, lw in ((schema.int.min(0), 1), (schema.str.len(1, 3), "ab"), (schema.float(1.5).precision(1), 1.5)):
            try:
                out.append(deep(n, leaf, lw))
            except Exception as e:  # noqa: BLE001
                CORPUS_STATS["corpus_build_exception:" + type(e).__name__] = CORPUS_STATS.get("corpus_build_exception:" + type(e).__name__, 0) + 1
    wide = [
        (lambda: schema.dict({("k%02d" % i if i % 5 else _opt("k%02d" % i)): (schema.int if i % 2 else schema.str) for i in range(30)}),
         {"k%02d" % i: (i if i % 2 else "s") for i in range(30)}),
        (lambda: schema.list([schema.int if i % 3 else schema.str for i in range(30)]), [i if i % 3 else "s" for i in range(30)]),
        (lambda: schema.list([..., *[schema.int(i) for i in range(12)], ...]), ["x"] + list(range(12)) + ["y"]),
        (lambda: schema.list([*[schema.int(i) for i in range(12)], ...]).len(12, 20), list(range(12)) + [None]),
        (lambda: schema.any(*[schema.int(i) for i in range(15)]), 14),
        (lambda: schema.any(*[schema.dict({"t": schema.str("v%d" % i), "n": schema.int}) for i in range(12)]), {"t": "v11", "n": 1}),
        (lambda: schema.list(schema.int.min(0)).len(50), list(range(50))),
        (lambda: schema.str.len(150, 200), "x" * 160), (lambda: schema.str.alphabet("ab").contains("a" * 20).len(60), "a" * 20 + "b" * 40),
        (lambda: schema.str.regex(r"^(ab){40}c{50}$"), "ab" * 40 + "c" * 50), (lambda: schema.str.regex(r"^(a|b|c|d|e|f|g|h|i|j|k|l)$"), "l"),
        (lambda: schema.int.min(10 ** 30).max(10 ** 30 + 5), 10 ** 30 + 2), (lambda: schema.float.min(1e200).max(1e201), 5e200),
        (lambda: schema.dict({"a": schema.int}) + schema.dict({"b": schema.int}) + schema.dict({"c": schema.int}) + schema.dict({"d": schema.int, ...: ...}),
         {"a": 1, "b": 2, "c": 3, "d": 4, "e": 5}),
        (lambda: _subst(_subst(_subst(_subst(schema.dict({"a": schema.int, "b": schema.int, "c": schema.int, "d": schema.int}), {"a": 1}), {"b": 2}), {"c": 3}), {"d": 4}),
         {"a": 1, "b": 2, "c": 3, "d": 4}),
        (lambda: _mr(_mr(_mr(schema.dict({_opt("a"): schema.int, _opt("b"): schema.int, _opt("c"): schema.int}), ["a"]), ["b"]), ["c"]), {"a": 1, "b": 2, "c": 3}),
        (lambda: schema.int | schema.str | schema.none | schema.bool | schema.float | schema.bytes, b"x"),
        (lambda: schema.alias("A1", schema.alias("A2", schema.alias("A3", schema.alias("A4", schema.alias("A5", schema.int.min(0)))))), 3),
        (lambda: schema.list(schema.list(schema.list(schema.list(schema.list(schema.int).len(1, 2)).len(1, 2)).len(1, 2)).len(1, 2)).len(1, 2),
         [[[[[1, 2]]]], [[[[3]]]]]),
    ]
    for mk, w in wide:
        try:
            out.append((mk(), w))
        except Exception as e:  # noqa: BLE001
            CORPUS_STATS["corpus_build_exception:" + type(e).__name__] = CORPUS_STATS.get("corpus_build_exception:" + type(e).__name__, 0) + 1
    # long values for every element-list form: the body occurs only at the very start / at the very end / in the middle
    for n in (16, 17, 18, 33):
        for e, w in (("schema.list([..., schema.int(1), schema.int(2), ...])", [0] * (n - 2) + [1, 2]),
                     ("schema.list([..., schema.int(1), schema.int(2), ...])", [1, 2] + [0] * (n - 2)),
                     ("schema.list([..., schema.int(1), ...])", [0] * (n - 1) + [1]),
                     ("schema.list([..., schema.str, schema.none])", [0] * (n - 2) + ["s", None]),
                     ("schema.list([schema.str, schema.none, ...])", ["s", None] + [0] * (n - 2)),
                     ('schema.list([..., schema.dict({"a": schema.int}), ...])', ["x"] * (n - 1) + [{"a": 1}])):
            add(e, w)
    # long fixed strings with blanks, tabs and line breaks (anything that re-flows or wraps text shows up)
    long_s = "Lorem ipsum dolor sit amet,  consectetur\tadipiscing elit,\nsed do eiusmod tempor incididunt ut labore et dolore magna aliqua. " * 2
    for v in (long_s, " " * 90, "x" * 500, long_s.strip() + " ", "\n".join("line %d" % i for i in range(30))):
        for e in ("schema.str(v)", 'schema.dict({"t": schema.str(v)})', "schema.list([schema.str(v), ...])", "schema.str.contains(v)",
                  "schema.str.alphabet(v)", "schema.any(schema.int, schema.str(v))"):
            add(e, {"t": v} if "dict" in e else ([v] if "list" in e else v), v=v)
    add("schema.bytes(v)", b"\x00\xff" * 60, v=b"\x00\xff" * 60)
    base = list(out)
    for s, w in base[::3]:
        for e, ww in (('schema.dict({"k": s, "z": schema.none})', {"k": w, "z": None}), ("schema.list([schema.none, s])", [None, w]),
                      ("schema.list(s).len(1, 2)", [w]), ("schema.any(schema.none, s)", w),
                      ("schema.list([..., s, ...])", [None, w, None])):
            add(e, ww, s=s)
    return out


def list_form_value_cases(ctx):
    """directed: every element-list form with 1..3 body elements against all short value sequences over a small member
    universe (so that the best window of the contains form starts at every offset, with element-level errors inside)"""
    import itertools
    from d42 import schema
    bodies = [[schema.int(1), schema.int(2)], [schema.str, schema.int], [schema.int(1)], [schema.int, schema.int(2), schema.str("a")],
              [schema.dict({"id": schema.int(1)}), schema.int(2)]]
    members = [0, 1, 2, "a", {"id": 1}, {"id": 2}]
    out = []
    for body in bodies:
        for els in ([...] + body + [...], [...] + body, body + [...], list(body)):
            for s in (schema.list(els), schema.dict({"items": schema.list(els), "n": schema.int})):
                for n in range(0, 5):
                    for combo in itertools.product(range(len(members)), repeat=n):
                        if n >= 3 and ctx.rnd.random() < ctx.n(0.85, 0.5):
                            continue
                        v = [members[i] if not isinstance(members[i], dict) else dict(members[i]) for i in combo]
                        out.append(ValCase(s, v if s.__class__.__name__ == "ListSchema" else {"items": v, "n": 1}, "listform"))
    return out
