"""Case batches for the validator-family checks: (schema, value) pairs that are mostly valid,
plus every one-step perturbation, boundary values and a separate hostile stream."""
from . import gen_value, scripted_random
from .gen_schema import SchemaGen
from .valcorr import ValCase


def schema_batch(ctx, n, **opts):
    depth = opts.pop("max_depth", ctx.n(3, 4))
    g = SchemaGen(ctx.rnd, max_depth=depth, **opts)
    out = []
    for _ in range(n):
        try:
            out.append(g.top())
        except RecursionError:
            continue
    for k, v in g.stats.items():
        ctx.count("schema:" + k, v)
    return out


def generated_values(ctx, s, policies=("lo", "hi", "alt", "rnd")):
    vals = []
    for pol in policies:
        (kind, v), log = scripted_random.generate(s, scripted_random.make_policy(pol, ctx.rnd))
        if kind == "ok":
            vals.append(v)
    return vals


def value_cases(ctx, s, w, *, perturb=12, zoo=6, inject=4, gens=("lo", "hi", "rnd")):
    cases = [ValCase(s, w, "witness")]
    vs = generated_values(ctx, s, gens)
    for v in vs:
        cases.append(ValCase(s, v, "generated"))
    base = [w] + vs[:1]
    for b in base:
        ps = gen_value.perturb(b, ctx.rnd)
        if len(ps) > perturb:
            ps = ctx.rnd.sample(ps, perturb)
        for v in ps:
            cases.append(ValCase(s, v, "perturbed"))
    z = gen_value.zoo()
    for v in ctx.rnd.sample(z, min(zoo, len(z))):
        cases.append(ValCase(s, v, "zoo"))
    for _ in range(inject):
        bad = ctx.rnd.choice(gen_value.zoo())
        try:
            cases.append(ValCase(s, gen_value.inject(w, ctx.rnd, bad), "injected"))
        except Exception:
            pass
    return cases
