"""Talk to the Lean model driver (compiled `d42model`) over the line protocol."""
import os
import subprocess

from . import sexp
from .common import VERIF

EXE = os.path.join(VERIF, "lean", ".lake", "build", "bin", "d42model")


class ModelError(Exception):
    pass


def run_batch(requests, timeout=600):
    """requests: list of python-side sexps. Returns list of parsed responses (all-string atoms)."""
    if not requests:
        return []
    data = "\n".join(sexp.dumps(r) for r in requests) + "\n"
    p = subprocess.run([EXE], input=data.encode(), stdout=subprocess.PIPE, stderr=subprocess.PIPE,
                       timeout=timeout)
    if p.returncode != 0:
        raise ModelError(f"model driver exited {p.returncode}: {p.stderr.decode()[:2000]}")
    lines = p.stdout.decode().splitlines()
    if len(lines) != len(requests):
        raise ModelError(f"model driver answered {len(lines)} lines for {len(requests)} requests")
    out = []
    for ln in lines:
        if ln in ("BADPARSE", "BADCMD", "BADINPUT"):
            out.append(ln)
        else:
            out.append(sexp.loads(ln))
    return out
