"""Runs in a fresh interpreter: evaluates value-only operations (from_native(v), schema.<facade> % v) given as JSON on
stdin in the order given and prints the repr of each result (or the exception class)."""
import json
import sys


def main():
    verif = sys.argv[1]
    sys.path.insert(0, verif)
    from harness.common import d42  # noqa: F401
    from d42 import schema, substitute
    from d42.utils import from_native
    ops = json.load(sys.stdin)
    out = []
    for kind, v in ops:
        try:
            if kind == "from_native":
                r = from_native(v)
            else:
                r = substitute(getattr(schema, kind), v)
            out.append(repr(r))
        except Exception as e:  # noqa: BLE001
            out.append("EXC:" + type(e).__name__)
    print(json.dumps(out))


if __name__ == "__main__":
    main()
