"""Type-directed generator of (schema, witness) pairs built through the real DSL.

Every schema it returns is hereditarily satisfiable *by construction* and comes with a witness value
that conforms to it (checked by callers against the real `validate` and the independent `Conforms`
oracle before it is used to accuse `fake`). All random choices come from the one PRNG passed in.
"""
import datetime
import uuid

from . import common  # noqa: F401
from . import custom
from d42 import optional, schema
from d42.declaration import DeclarationError
from d42.utils import from_native, make_required

U4 = [uuid.UUID("886313e1-3b8a-4372-9b90-0c9aee199e5d"), uuid.UUID("12345678-1234-4234-8234-123456789abc")]
U_NOT4 = [uuid.UUID("886313e1-3b8a-5372-9b90-0c9aee199e5d"), uuid.UUID("886313e1-3b8a-1372-9b90-0c9aee199e5d")]
DTS = [datetime.datetime(2020, 1, 2, 3, 4, 5), datetime.datetime(1999, 12, 31, 23, 59, tzinfo=datetime.timezone.utc)]
DS = [datetime.date(2020, 1, 2), datetime.date(1980, 5, 5)]
KEYS = ["a", "b", "c", "id", "k.x", "", 1, 0, None, ("t", 1), b"kb", -7]
ALPHABETS = ["abc", "ab", "0123456789", "a", "xyz ", "aé"]
# patterns from the supported grammar, each with one witness string that matches (search) it
PATTERNS = [(r"[a-c]{2}", "ab"), (r"\d+x?", "12x"), (r"(ab|cd)+", "abcd"), (r"^ab$", "ab"),
            (r"a.c", "abc"), (r"\w{1,3}", "a_1"), (r"[^a-y]", "z"), (r"(?:x|yz){0,2}w", "xyzw"),
            (r"(?P<n>q)[0-9a-f]*", "q0f"), (r"ab*?c", "abbc"), (r"[\d_]{2,}", "1_"), (r"", "")]


class SchemaGen:
    def __init__(self, rnd, *, max_depth=3, customs=False, aliases=True, regexes=True, clock=True,
                 big_bounds=True, derived=True, nan_inf=False):
        self.r = rnd
        self.max_depth = max_depth
        self.customs = customs
        self.aliases = aliases
        self.regexes = regexes
        self.clock = clock          # unfixed uuid4 / datetime / date allowed
        self.big_bounds = big_bounds
        self.derived = derived
        self.stats = {}

    def _count(self, k):
        self.stats[k] = self.stats.get(k, 0) + 1

    # ------------------------------------------------------------------ scalars
    def s_none(self):
        return schema.none, None

    def s_bool(self):
        c = self.r.random()
        if c < .4:
            return schema.bool, self.r.choice([True, False])
        b = self.r.choice([True, False])
        return schema.bool(b), b

    def _int_bound(self):
        c = self.r.random()
        if self.big_bounds and c < .08:
            return self.r.choice([2 ** 63, 2 ** 63 - 1, -2 ** 63, -2 ** 63 - 1, 2 ** 70, -2 ** 70])
        return self.r.randint(-6, 6)

    def s_int(self):
        c = self.r.random()
        if c < .2:
            return schema.int, self.r.randint(-5, 5)
        if c < .35:
            v = self.r.choice([self._int_bound(), True, 0])
            return schema.int(v), v
        if c < .5:
            v = self._int_bound()
            s = schema.int(v)
            if self.r.random() < .7:
                s = s.min(v - self.r.randint(0, 2))
            if self.r.random() < .7:
                s = s.max(v + self.r.randint(0, 2))
            return s, v
        lo = self._int_bound()
        hi = lo + self.r.choice([0, 0, 1, 2, 5])
        s = schema.int
        w = lo
        k = self.r.random()
        if k < .3:
            s = s.min(lo)
        elif k < .6:
            s = s.max(hi)
            w = hi
        else:
            s = s.min(lo).max(hi) if self.r.random() < .5 else s.max(hi).min(lo)
            w = self.r.choice([lo, hi])
        return s, w

    def s_float(self):
        c = self.r.random()
        if c < .15:
            return schema.float, self.r.choice([0.0, -1.5, 3.25, 1e300])
        if c < .35:
            v = self.r.choice([0.0, 1.5, -2.25, 3.14, 1e10, 0.1, -0.3, 5e-324, 1.7976931348623157e308])
            s = schema.float(v)
            if self.r.random() < .4:
                s = s.precision(self.r.randint(1, 15))
            if self.r.random() < .3:
                s = s.min(v - self.r.choice([0.0, 0.5]))
            if self.r.random() < .3:
                s = s.max(v + self.r.choice([0.0, 0.5]))
            return s, v
        if c < .7:
            # precision grid with (possibly off-grid) bounds containing at least one grid point
            p = self.r.choice([1, 1, 2, 2, 3, 5, 15])
            a = self.r.randint(-40, 40)
            m = self.r.randint(0, 3)
            off_lo = self.r.choice([0, 0, 0.5, 0.9, 0.1])
            off_hi = self.r.choice([0, 0, 0.5, 0.1, 0.9])
            lo = (a - off_lo) / 10 ** p
            hi = (a + m + off_hi) / 10 ** p
            s = schema.float
            k = self.r.random()
            if k < .6:
                s = s.min(lo).max(hi)
            elif k < .8:
                s = s.min(lo)
            else:
                s = s.max(hi)
            s = s.precision(p)
            w = round(a / 10 ** p, p) if k < .8 else round((a + m) / 10 ** p, p)
            w = float(w)
            return s, w
        lo = self.r.choice([-1.5, 0.0, 0.5, 1.0, -1e19, 1e19, 0.1, -0.30000000000000004])
        hi = lo + self.r.choice([0.0, 1.0, 2.5, 1e5])
        s = schema.float
        k = self.r.random()
        if k < .35:
            return s.min(lo), lo
        if k < .7:
            return s.max(hi), hi
        return s.min(lo).max(hi), self.r.choice([lo, hi])

    def _fill(self, alphabet, n):
        return "".join(self.r.choice(alphabet) for _ in range(n))

    def s_str(self):
        c = self.r.random()
        if c < .12:
            return schema.str, self.r.choice(["", "abc", "x y", "é☃"])
        if c < .3:
            v = self.r.choice(["", "abc", "banana", "x y", "aab"])
            s = schema.str(v)
            k = self.r.random()
            try:
                if k < .2:
                    s = s.len(len(v))
                elif k < .3:
                    s = s.len(max(0, len(v) - 1), ...)
                elif k < .4:
                    s = s.len(..., len(v) + 1)
                elif k < .5 and v:
                    s = s.contains(v[1:])
                elif k < .6:
                    s = s.alphabet("".join(sorted(set(v))) + "q")
                elif k < .7 and v:
                    s = s.regex(v[0])
            except DeclarationError:
                pass
            return s, v
        if self.regexes and c < .45:
            p, w = self.r.choice(PATTERNS)
            return schema.str.regex(p), w
        s = schema.str
        alphabet = None
        sub = None
        if self.r.random() < .55:
            alphabet = self.r.choice(ALPHABETS)
        if self.r.random() < .45:
            base = alphabet if alphabet else "abz-"
            sub = self._fill(base, self.r.choice([0, 1, 2, 3]))
        nsub = len(sub) if sub is not None else 0
        f = self.r.random()
        base = alphabet if alphabet else "qrs "
        if f < .2:
            n = nsub + self.r.choice([0, 0, 1, 3, 33 - nsub if nsub < 33 else 0])
            length, mn, mx = n, None, None
        elif f < .4:
            mn = self.r.choice([0, nsub, nsub + 2, 33, 40])
            length, mx = None, None
            n = max(mn, nsub)
        elif f < .6:
            mx = nsub + self.r.choice([0, 1, 4])
            length, mn = None, None
            n = nsub
        elif f < .8:
            mn = self.r.choice([0, nsub, nsub + 1])
            mx = max(mn, nsub) + self.r.choice([0, 2, 40])
            length = None
            n = max(mn, nsub)
        else:
            length = mn = mx = None
            n = nsub + self.r.choice([0, 2])
        # declare in a random order (C11 says order must not matter)
        ops = []
        if alphabet is not None:
            ops.append(lambda s: s.alphabet(alphabet))
        if sub is not None:
            ops.append(lambda s: s.contains(sub))
        if length is not None:
            ops.append(lambda s: s.len(length))
        elif mn is not None and mx is not None:
            ops.append(lambda s: s.len(mn, mx))
        elif mn is not None:
            ops.append(lambda s: s.len(mn, ...))
        elif mx is not None:
            ops.append(lambda s: s.len(..., mx))
        self.r.shuffle(ops)
        for op in ops:
            s = op(s)
        pad = n - nsub
        k = self.r.randint(0, pad) if pad > 0 else 0
        w = self._fill(base, k) + (sub or "") + self._fill(base, pad - k)
        return s, w

    def s_bytes(self):
        if self.r.random() < .5:
            return schema.bytes, b"xy"
        v = self.r.choice([b"", b"ab", b"\x00\xff"])
        return schema.bytes(v), v

    def s_uuid4(self):
        if self.clock and self.r.random() < .4:
            return schema.uuid4, U4[1]
        v = self.r.choice(U4)
        return schema.uuid4(v), v

    def s_datetime(self):
        if self.clock and self.r.random() < .4:
            return schema.datetime, DTS[1]
        v = self.r.choice(DTS)
        return schema.datetime(v), v

    def s_date(self):
        if self.clock and self.r.random() < .4:
            return schema.date, self.r.choice([DS[1], DTS[0]])
        v = self.r.choice(DS)
        return schema.date(v), v

    def scalar(self):
        k = self.r.choice(["none", "bool", "int", "int", "float", "float", "str", "str", "str", "bytes",
                           "uuid4", "datetime", "date"])
        self._count("scalar:" + k)
        return getattr(self, "s_" + k)()

    # ------------------------------------------------------------------ containers
    def _lenform(self, s, count, *, exact_only=False, min_only_le=None):
        """declare a len form on list schema `s` whose witness will have `count` elements"""
        f = self.r.random()
        if f < .45:
            return s
        if f < .6:
            return s.len(count)
        if exact_only:
            return s
        if f < .75:
            return s.len(self.r.randint(0, count), ...)
        if f < .9:
            return s.len(..., count + self.r.choice([0, 1, 3]))
        lo = self.r.randint(0, count)
        return s.len(lo, count + self.r.choice([0, 2]))

    def list_u(self, depth):
        self._count("listU")
        n = self.r.choice([0, 1, 2, 17, 20])
        s = schema.list
        f = self.r.random()
        if f < .3:
            return s, self.r.choice([[], [1, "x"], [None]])
        if f < .5:
            return s.len(n), [[] for _ in range(n)]
        if f < .7:
            return s.len(n, ...), [None] * n
        if f < .85:
            return s.len(..., n), []
        return s.len(n, n + 2), [0] * n

    def list_t(self, depth):
        self._count("listT")
        es, ew = self.any_schema(depth - 1)
        n = self.r.choice([0, 1, 2, 3, 17, 20] if depth <= 1 else [0, 1, 2, 3])
        s = schema.list(es)
        f = self.r.random()
        if f < .35:
            n = self.r.choice([0, 1, 2])
        elif f < .5:
            s = s.len(n)
        elif f < .65:
            s = s.len(n, ...)
        elif f < .8:
            s = s.len(..., n)
        else:
            s = s.len(max(0, n - 1), n + 1)
        return s, [ew for _ in range(n)]

    def list_e(self, depth):
        n = self.r.choice([0, 1, 1, 2, 2, 3])
        parts = [self.any_schema(depth - 1) for _ in range(n)]
        els = [p[0] for p in parts]
        ws = [p[1] for p in parts]
        form = self.r.choice(["exact", "exact", "head", "tail", "body", "dots"])
        if n == 0 and form in ("head", "tail", "body"):
            form = self.r.choice(["exact", "dots"])
        if form == "dots" and n > 0:
            form = "exact"
        self._count("listE:" + form)
        extra_front = [self.r.choice([None, 7, "z"]) for _ in range(self.r.choice([0, 0, 1, 2]))]
        extra_back = [self.r.choice([None, 7, "z"]) for _ in range(self.r.choice([0, 0, 1, 2]))]
        if form == "exact":
            s = schema.list(list(els))
            if self.r.random() < .3:
                s = s.len(n)
            return s, ws
        if form == "dots":
            return schema.list([...]), extra_back
        if form == "head":
            s, w = schema.list(els + [...]), ws + extra_back
        elif form == "tail":
            s, w = schema.list([...] + els), extra_front + ws
        else:
            s, w = schema.list([...] + els + [...]), extra_front + ws + extra_back
        # len forms that the generator can honour (it emits exactly the concrete elements):
        f = self.r.random()
        if f < .15:
            s, w = s.len(n), ws
        elif f < .3:
            s = s.len(self.r.randint(0, n), ...)
        elif f < .45:
            s = s.len(..., len(w) + self.r.choice([0, 1]))
        return s, w

    def dict_(self, depth):
        c = self.r.random()
        if c < .06:
            self._count("dict:bare")
            return schema.dict, self.r.choice([{}, {"q": 1}])
        if c < .1:
            self._count("dict:empty")
            return schema.dict({}), {}
        if c < .14:
            self._count("dict:dots")
            return schema.dict({...: ...}), self.r.choice([{}, {"q": None}])
        self._count("dict:keys")
        d, w = {}, {}
        ks = self.r.sample(KEYS, self.r.randint(1, 4))
        for key in ks:
            vs, vw = self.any_schema(depth - 1)
            if self.r.random() < .3:
                d[optional(key)] = vs
                if self.r.random() < .5:
                    w[key] = vw
            else:
                d[key] = vs
                w[key] = vw
        relaxed = self.r.random() < .3
        if relaxed:
            # `...: ...` at a random position
            items = list(d.items())
            pos = self.r.randint(0, len(items))
            items.insert(pos, (..., ...))
            d = dict(items)
            if self.r.random() < .5:
                w["extra!"] = self.r.choice([None, 1, [2]])
        return schema.dict(d), w

    def any_(self, depth):
        c = self.r.random()
        if c < .08:
            self._count("any:bare")
            return schema.any, self.r.choice([None, 3, "x", [1]])
        self._count("any:alts")
        if c < .3:
            # alternatives of the same kind that differ only in their members
            self._count("any:same_kind")
            members = [self.scalar() for _ in range(self.r.randint(2, 3))]
            wrap = self.r.choice(["list", "dict", "alias", "listE"])
            alts = []
            for ms, mw in members:
                if wrap == "list":
                    alts.append((schema.list(ms), [mw]))
                elif wrap == "dict":
                    alts.append((schema.dict({"id": ms}), {"id": mw}))
                elif wrap == "alias":
                    alts.append((schema.alias("A", ms), mw))
                else:
                    alts.append((schema.list([ms, ...]), [mw, None]))
            s = schema.any(*[a[0] for a in alts])
            return s, alts[-1][1] if self.r.random() < .6 else self.r.choice(alts)[1]
        alts = [self.any_schema(depth - 1) for _ in range(self.r.randint(1, 3))]
        if self.r.random() < .5 and len(alts) >= 2:
            s = alts[0][0]
            for a in alts[1:]:
                s = s | a[0]
        else:
            s = schema.any(*[a[0] for a in alts])
        return s, self.r.choice(alts)[1]

    def derived_(self, depth):
        kinds = ["add", "required", "native", "native", "subst", "subst2", "required_add"]
        if self.aliases:
            kinds += ["alias2", "union_alias"]     # only where type aliases are inside the property under test
        k = self.r.choice(kinds)
        self._count("derived:" + k)
        if k in ("subst", "subst2"):
            # the result of an operation is a schema like any other: substitute the witness (once; or a part of it, then all)
            from d42 import substitute
            t, w = self._any_schema(depth - 1)

            def part(v):
                if isinstance(v, dict) and v:
                    ks = self.r.sample(list(v), self.r.randint(0, len(v)))
                    return {kk: part(v[kk]) for kk in v if kk in ks}
                return v
            try:
                if k == "subst2":
                    t = substitute(t, part(w))
                return substitute(t, w), w
            except Exception:  # noqa: BLE001
                return t, w
        if k == "alias2":
            t, w = self._any_schema(depth - 1)
            return schema.alias("Outer", schema.alias("Inner", t)), w
        if k == "union_alias":
            (a, aw), (b, bw), (c, cw) = self._any_schema(depth - 1), self._any_schema(depth - 1), self.scalar()
            return schema.alias("L", a) | (schema.alias("R", b) | c), self.r.choice([aw, bw, cw])
        if k == "required_add":
            (a, aw), (b, bw) = self.dict_(depth), self.dict_(depth)
            from niltype import Nil
            sm = a + b
            keys = sm.props.get("keys")
            if keys is Nil:
                return sm, {}
            w = {}
            bkeys = b.props.get("keys")
            for key, (vs, opt) in keys.items():
                if key is Ellipsis:
                    continue
                src = bw if (bkeys is not Nil and key in bkeys) else aw
                if key in src:
                    w[key] = src[key]
                else:
                    return b, bw
            return make_required(sm), w
        if k == "add":
            (a, aw), (b, bw) = self.dict_(depth), self.dict_(depth)
            s = a + b
            # witness: generate from the merged declaration instead (b wins, extras dropped)
            keys = s.props.get("keys")
            from niltype import Nil
            if keys is Nil:
                return s, {}
            w = {}
            for key, (vs, opt) in keys.items():
                if key is Ellipsis:
                    continue
                bkeys = b.props.get("keys")
                src = bw if (bkeys is not Nil and key in bkeys) else aw
                if key in src:
                    w[key] = src[key]
                elif not opt:
                    return b, bw   # cannot build a witness cheaply: fall back to an operand
            return s, w
        if k == "required":
            d, w = self.dict_(depth)
            from niltype import Nil
            keys = d.props.get("keys")
            if keys is Nil:
                return d, w
            names = [x for x in keys if x is not Ellipsis]
            if not names:
                return d, w
            pick = self.r.sample(names, self.r.randint(1, len(names)))
            if not all(x in w for x in pick):
                return d, w
            return make_required(d, pick), w
        v = self.plain_value(depth)
        return from_native(v), v

    def plain_value(self, depth):
        """nested plain value (the domain of from_native)"""
        if depth <= 0 or self.r.random() < .5:
            return self.r.choice([None, True, False, 0, 1, -3, 2 ** 65, 0.0, 1.5, -2.25, "", "abc", "é",
                                  b"ab", b"", 10 ** 12, -10 ** 9, 2 ** 53 + 1, -0.0, 1e300, U4[0], DTS[0], DS[0]])
        if self.r.random() < .5:
            return [self.plain_value(depth - 1) for _ in range(self.r.randint(0, 3))]
        return {k: self.plain_value(depth - 1) for k in self.r.sample(["a", "b", 1, None, "k.x"], self.r.randint(0, 3))}

    def any_schema(self, depth):
        """a schema of the given depth; construction that raises (DeclarationError for a contradictory draw, or anything
        else when the library under test is broken) is retried and counted — a check for another property must not
        crash because building its inputs does"""
        for _ in range(20):
            try:
                return self._any_schema(depth)
            except DeclarationError:
                self._count("generator_declaration_rejected")
            except Exception as e:  # noqa: BLE001
                self._count("generator_build_exception:" + type(e).__name__)
        return schema.none, None

    def _any_schema(self, depth):
        if depth <= 0 or self.r.random() < .3:
            s, w = self.scalar()
        else:
            kinds = ["listT", "listE", "listE", "listU", "dict", "dict", "any"]
            if self.aliases:
                kinds.append("alias")
            if self.derived:
                kinds.append("derived")
            k = self.r.choice(kinds)
            if k == "listT":
                s, w = self.list_t(depth)
            elif k == "listE":
                s, w = self.list_e(depth)
            elif k == "listU":
                s, w = self.list_u(depth)
            elif k == "dict":
                s, w = self.dict_(depth)
            elif k == "any":
                s, w = self.any_(depth)
            elif k == "alias":
                self._count("alias")
                t, w = self.any_schema(depth - 1)
                s = schema.alias(self.r.choice(["Al", "T"]), t)
            else:
                s, w = self.derived_(depth)
        if self.customs and self.r.random() < .25:
            self._count("custom")
            s = custom.wrap(s)
        return s, w

    def top(self):
        return self.any_schema(self.max_depth)
