"""Declaration call chains over every refinement method of every type, with arguments drawn from
valid, boundary, contradictory and wrongly-typed values; applied to the real DSL and encoded for the
model."""
import re

from . import common  # noqa: F401
from . import encode
from .gen_schema import DS, DTS, U4, U_NOT4
from niltype import Nil
from d42 import optional, schema
from d42.declaration.types import Schema

NAN = float("nan")
INT_U = [0, 1, -1, 3, 5, True, False, 2 ** 63, -2]
FLOAT_U = [0.0, 1.0, -1.5, 3.0, 1e308, NAN, float("inf"), 0.1, 0.3, 0.1 + 0.2, 1.0000000000000002, 0.9999999999999999,
           1.0 + 5e-10, 1.0 - 5e-10, -1.5000000000000002]
STR_U = ["", "a", "ab", "abc", "ba", "xyz", "b"]
BAD_U = [None, ..., Nil, "1", 1.0, 2, [1], {"a": 1}, (1,), object(), b"x", True]
PATTERNS = ["a", "^ab", "[a-c]+", "b$", "(", "x{2,1}", r"\d", ""]

FACADES = ["bool", "int", "float", "str", "list", "dict", "any", "bytes", "uuid4", "datetime", "date"]

METHODS = {
    "bool": ["call"], "int": ["call", "min", "max"], "float": ["call", "min", "max", "precision"],
    "str": ["call", "len", "alphabet", "contains", "regex"], "list": ["call", "len"], "dict": ["call"],
    "any": ["anycall"], "bytes": ["call"], "uuid4": ["call"], "datetime": ["call"], "date": ["call"],
}


def small_schema(rnd):
    return rnd.choice([schema.int, schema.str, schema.none, schema.int(1), schema.list(schema.int),
                       schema.any(schema.int, schema.str), schema.any, schema.dict({"k": schema.bool})])


def gen_arg(rnd, facade, method):
    """returns a tuple of python positional args"""
    bad = rnd.random() < .2
    if method == "len":
        def one():
            c = rnd.random()
            if c < .55:
                return rnd.choice([0, 1, 2, 3, 5, -1, True])
            if c < .8:
                return ...
            return rnd.choice(BAD_U)
        if rnd.random() < .45:
            return (one(),)
        return (one(), one())
    if bad:
        return (rnd.choice(BAD_U),)
    if facade == "bool":
        return (rnd.choice([True, False]),)
    if facade == "int":
        return (rnd.choice(INT_U),)
    if facade == "float":
        if method == "precision":
            return (rnd.choice([1, 2, 15, 16, 0, -1, True]),)
        return (rnd.choice(FLOAT_U),)
    if facade == "str":
        if method == "regex":
            return (rnd.choice(PATTERNS),)
        return (rnd.choice(STR_U),)
    if facade == "list":
        c = rnd.random()
        if c < .3:
            return (small_schema(rnd),)
        n = rnd.randint(0, 3)
        els = [small_schema(rnd) for _ in range(n)]
        k = rnd.random()
        if k < .15:
            els = [...] + els
        elif k < .3:
            els = els + [...]
        elif k < .4:
            els = [...] + els + [...]
        elif k < .5 and els:
            els.insert(rnd.randint(0, len(els)), ...)
        elif k < .55 and els:
            els[rnd.randrange(len(els))] = rnd.choice([1, "x", None])
        return (els,)
    if facade == "dict":
        d = {}
        for key in rnd.sample(["a", "b", 1, None, ("t",)], rnd.randint(0, 3)):
            k = optional(key) if rnd.random() < .3 else key
            d[k] = small_schema(rnd) if rnd.random() < .9 else rnd.choice([1, ..., None])
        c = rnd.random()
        if c < .25:
            d[...] = ...
        elif c < .3:
            d[...] = schema.int
        return (d,)
    if facade == "bytes":
        return (rnd.choice([b"", b"ab"]),)
    if facade == "uuid4":
        import uuid as _uuid
        # non-RFC-4122 variants have `.version is None` (nil / max UUID, NCS variant with a 4 in the version nibble)
        odd = [_uuid.UUID(int=0), _uuid.UUID(int=2 ** 128 - 1), _uuid.UUID("00000000-0000-4000-0000-000000000000")]
        return (rnd.choice(U4 + U_NOT4 + odd),)
    if facade == "datetime":
        return (rnd.choice(DTS + DS),)
    if facade == "date":
        return (rnd.choice(DS + DTS),)
    return (None,)


def gen_any_args(rnd):
    n = rnd.randint(0, 3)
    args = [small_schema(rnd) for _ in range(n)]
    if rnd.random() < .15 and args:
        args[rnd.randrange(len(args))] = rnd.choice([1, None, ...])
    return tuple(args)


def gen_chain(rnd, max_len=4):
    facade = rnd.choice(FACADES)
    n = rnd.randint(1, max_len)
    ops = []
    for _ in range(n):
        m = rnd.choice(METHODS[facade])
        if m == "anycall":
            ops.append((m, gen_any_args(rnd)))
        else:
            ops.append((m, gen_arg(rnd, facade, m)))
    return facade, ops


def apply_real(s, op):
    m, args = op
    if m in ("call", "anycall"):
        return s(*args)
    return getattr(s, m)(*args)


# ------------------------------------------------------------------------------------- encoding

def enc_elem(x, I):
    if x is Ellipsis:
        return "E"
    if isinstance(x, Schema):
        return ["sch", encode.enc_schema(x, I)]
    return "bad"


def enc_arg(x, I):
    if x is Nil:
        return "nil"
    if isinstance(x, Schema):
        return ["sch", encode.enc_schema(x, I)]
    return ["v", encode.enc_value(x, I)]


def enc_op(op, s, I):
    """`s` is the receiver (needed for the external facts regex() consults)"""
    m, args = op
    if m == "anycall":
        return ["anycall"] + [enc_arg(a, I) for a in args]
    if m == "len":
        a = args[0]
        b = args[1] if len(args) > 1 else Nil
        return ["len", enc_arg(a, I), enc_arg(b, I)]
    a = args[0]
    if m == "regex" and isinstance(a, str):
        try:
            re.compile(a)
            compiles = 1
        except re.error:
            compiles = 0
        pat = encode.enc_pattern(a, I) if compiles else ["rx", I.pattern(a)]
        val = s.props.get("value")
        matches = 1 if (compiles and isinstance(val, str) and re.search(a, val) is not None) else 0
        return ["regex", ["pat", compiles, pat, matches]]
    if m == "call" and isinstance(a, list) and type(s).__name__ == "ListSchema":
        return ["call", ["elems"] + [enc_elem(x, I) for x in a]]
    if m == "call" and isinstance(a, dict) and type(s).__name__ == "DictSchema":
        kvs = []
        for k, v in a.items():
            if k is Ellipsis:
                ke = "E"
            elif isinstance(k, optional):
                ke = ["key", encode.enc_key(k.key, I), 1]
            else:
                ke = ["key", encode.enc_key(k, I), 0]
            kvs.append([ke, enc_elem(v, I)])
        return ["call", ["keys"] + kvs]
    return [m, enc_arg(a, I)]
