"""Correspondence on the declaration view: `ok <schema>` / exception class for call chains."""
from . import encode, gen_chain as GC, model, sexp
from .common import d42  # noqa: F401
from d42 import schema


class ChainCase:
    __slots__ = ("facade", "ops", "outcome", "result", "req", "skip", "trace")

    def __init__(self, facade, ops):
        self.facade, self.ops = facade, ops
        self.req = None
        self.skip = None


def run_real(c):
    I = encode.Interner()
    s = getattr(schema, c.facade)
    c.trace = []       # (receiver, op, outcome) for the oracle
    try:
        e0 = encode.enc_schema(s, I)
        eops = []
        cur = s
        outcome = None
        for op in c.ops:
            eops.append(GC.enc_op(op, cur, I))
            try:
                nxt = GC.apply_real(cur, op)
                c.trace.append((cur, op, ("ok", nxt)))
                cur = nxt
            except Exception as ex:  # noqa: BLE001
                c.trace.append((cur, op, ("exc", ex)))
                outcome = ["exc", type(ex).__name__]
                break
        c.result = cur
        if outcome is None:
            outcome = ["ok", encode.tostr(encode.strip_dec(encode.enc_schema(cur, I)))]
        c.outcome = outcome
        c.req = ["decl", e0, ["ops"] + eops]
    except encode.Unencodable as ex:
        c.skip = str(ex)
        if not hasattr(c, "outcome") or c.outcome is None:
            c.outcome = None


def compare(cases, ctx):
    todo = [c for c in cases if c.req is not None]
    res = model.run_batch([c.req for c in todo])
    out = []
    for c, r in zip(todo, res):
        ctx.count("declcorr_cases")
        if isinstance(r, str):
            out.append((c, "model driver answered " + r))
            continue
        if r[0] == "ok":
            r = ["ok", encode.strip_dec(r[1])]
        if r != c.outcome:
            out.append((c, f"declaration outcome differs:\n real  {sexp.dumps(c.outcome)[:400]}\n model {sexp.dumps(r)[:400]}"))
        else:
            ctx.count("declcorr_agree:" + (c.outcome[0] if c.outcome[0] == "ok" else c.outcome[1]))
    return out
