"""Regular expressions generated from the grammar the generator supports, with the unsupported
constructs optionally embedded at a random position."""

LITS = list("abcxyz019_ -") + [r"\.", r"\*", r"\\", r"\(", r"\]", "é"]
CLASS_ITEMS = ["a", "b", "z", "0-9", "a-f", "A-Z", r"\d", r"\w", "_", "-", r"\]", "é", " ", "~", "a-~", "!-~", " -}", " -/",
               r"0-\x7f", r"\x00-\uffff", " -~", "}-~", " "]
UNSUPPORTED = [r"(?=a)", r"(?!a)", r"(?<=a)", r"(?<!a)", r"\1", r"\s", r"\S", r"\D", r"\W", r"(?>a)", r"a*+", r"a++",
               r"[\s]", r"[\D]", r"[^\W]"]


def gen_class(rnd, allow_neg=True):
    n = rnd.randint(1, 4)
    items = [rnd.choice(CLASS_ITEMS) for _ in range(n)]
    neg = "^" if (allow_neg and rnd.random() < .25) else ""
    return "[" + neg + "".join(items) + "]"


def gen_atom(rnd, depth, allow_neg):
    c = rnd.random()
    if c < .35:
        return rnd.choice(LITS)
    if c < .45:
        return "."
    if c < .55:
        return rnd.choice([r"\d", r"\w"])
    if c < .75:
        return gen_class(rnd, allow_neg)
    if depth <= 0:
        return rnd.choice(LITS)
    inner = gen_alt(rnd, depth - 1, allow_neg)
    k = rnd.random()
    if k < .4:
        return "(" + inner + ")"
    if k < .7:
        return "(?:" + inner + ")"
    return "(?P<g%d>%s)" % (rnd.randint(0, 10 ** 6), inner)


def gen_quant(rnd):
    c = rnd.random()
    if c < .45:
        return ""
    q = rnd.choice(["*", "+", "?", "{2}", "{0,2}", "{1,3}", "{2,}", "{0}", "{,2}", "{33,}", "{3,3}"])
    if rnd.random() < .25:
        q += "?"
    return q


def gen_seq(rnd, depth, allow_neg):
    return "".join(gen_atom(rnd, depth, allow_neg) + gen_quant(rnd) for _ in range(rnd.randint(0, 3)))


def gen_alt(rnd, depth, allow_neg):
    n = 1 if rnd.random() < .7 else rnd.randint(2, 3)
    return "|".join(gen_seq(rnd, depth, allow_neg) for _ in range(n))


def gen_pattern(rnd, depth=3, allow_neg=True, anchors=True):
    p = gen_alt(rnd, depth, allow_neg)
    if anchors and "|" not in p:
        if rnd.random() < .2:
            p = "^" + p
        if rnd.random() < .2:
            p = p + "$"
    return p


def embed_unsupported(rnd, p):
    u = rnd.choice(UNSUPPORTED)
    # insert at a random top-level-ish position that keeps the pattern compilable (checked by the caller)
    i = rnd.randint(0, len(p))
    return p[:i] + u + p[i:], u
