"""Build the Lean project, audit axioms, count obligations."""
import fcntl
import os
import re
import subprocess
import time

from .common import VERIF

LEAN = os.path.join(VERIF, "lean")
ALLOWED_AXIOMS = {"propext", "Classical.choice", "Quot.sound"}
FORBIDDEN = re.compile(r"\bsorry\b|\badmit\b|^\s*axiom\s|native_decide|bv_decide|implemented_by|\bunsafe\s|maxHeartbeats\s+0\b")


class Lock:
    """exclusive lock on the lake project, re-entrant within one process (regenerating the model files, building and taking
    the private copy of the driver must be ONE critical section: another check may be running against another source tree)"""
    _depth = 0
    _file = None

    def __enter__(self):
        if Lock._depth == 0:
            os.makedirs(os.path.join(LEAN, ".lake"), exist_ok=True)
            Lock._file = open(os.path.join(LEAN, ".lake", "verif.lock"), "w")
            fcntl.flock(Lock._file, fcntl.LOCK_EX)
        Lock._depth += 1
        return self

    def __exit__(self, *a):
        Lock._depth -= 1
        if Lock._depth == 0:
            fcntl.flock(Lock._file, fcntl.LOCK_UN)
            Lock._file.close()
            Lock._file = None


def write_if_changed(path, content):
    try:
        if open(path).read() == content:
            return False
    except FileNotFoundError:
        pass
    tmp = path + ".tmp%d" % os.getpid()
    with open(tmp, "w") as f:
        f.write(content)
    os.replace(tmp, path)
    return True


def build(targets, timeout=1500):
    """lake build; returns (ok, output)"""
    with Lock():
        t0 = time.time()
        p = subprocess.run(["lake", "build"] + list(targets), cwd=LEAN, stdout=subprocess.PIPE,
                           stderr=subprocess.STDOUT, timeout=timeout)
        if "d42model" in targets:
            if p.returncode != 0:
                # the property's theorems no longer build (that is reported as a broken obligation); the DRIVER is independent of
                # them — build it on its own so that the correspondence and the search still run, from a private copy
                q = subprocess.run(["lake", "build", "d42model"], cwd=LEAN, stdout=subprocess.PIPE, stderr=subprocess.STDOUT,
                                   timeout=timeout)
                if q.returncode == 0:
                    _private_driver()
            else:
                _private_driver()
        return p.returncode == 0, p.stdout.decode(errors="replace"), time.time() - t0


def _private_driver():
    """still holding the build lock: take a private copy of the driver this process just built, and run that one — another
    check may re-link the shared binary at any moment (generated model files change with the tree under test)"""
    import atexit
    import shutil
    import tempfile
    from . import model
    src = os.path.join(LEAN, ".lake", "build", "bin", "d42model")
    dst = os.path.join(tempfile.gettempdir(), "d42model-%d" % os.getpid())
    try:
        shutil.copy2(src, dst)
    except OSError:
        return
    model.EXE = dst
    atexit.register(lambda: os.path.exists(dst) and os.remove(dst))


def strip_comments(src):
    # remove /- ... -/ (nested) and -- comments
    out, i, depth = [], 0, 0
    while i < len(src):
        if src.startswith("/-", i):
            depth += 1
            i += 2
        elif depth and src.startswith("-/", i):
            depth -= 1
            i += 2
        elif depth:
            i += 1
        elif src.startswith("--", i):
            j = src.find("\n", i)
            i = len(src) if j < 0 else j
        else:
            out.append(src[i])
            i += 1
    return "".join(out)


def grep_forbidden(files):
    hits = []
    for f in files:
        try:
            src = strip_comments(open(os.path.join(LEAN, f)).read())
        except FileNotFoundError:
            hits.append((f, 0, "missing file"))
            continue
        for n, line in enumerate(src.splitlines(), 1):
            if FORBIDDEN.search(line):
                hits.append((f, n, line.strip()))
    return hits


def source_files():
    out = []
    for root, _, files in os.walk(os.path.join(LEAN, "D42")):
        for fn in files:
            if fn.endswith(".lean"):
                out.append(os.path.relpath(os.path.join(root, fn), LEAN))
    return sorted(out) + ["Main.lean"]


def audit(module, theorems, tag, timeout=900):
    """`#print axioms` on every theorem; returns {theorem: set(axioms) | None if unknown/failed}"""
    body = f"import {module}\nopen D42\n" + "".join(f"#print axioms {t}\n" for t in theorems)
    path = os.path.join(LEAN, ".lake", f"audit_{tag}.lean")
    with open(path, "w") as f:
        f.write(body)
    with Lock():
        p = subprocess.run(["lake", "env", "lean", path], cwd=LEAN, stdout=subprocess.PIPE,
                           stderr=subprocess.STDOUT, timeout=timeout)
    out = p.stdout.decode(errors="replace")
    res = {t: None for t in theorems}
    # messages look like:  'D42.foo' depends on axioms: [propext, Quot.sound]   |  'D42.foo' does not depend on any axioms
    for m in re.finditer(r"'([^']+)' (depends on axioms: \[([^\]]*)\]|does not depend on any axioms)", out, re.S):
        name = m.group(1)
        axs = set(a.strip() for a in (m.group(3) or "").replace("\n", " ").split(",") if a.strip())
        for t in theorems:
            if name == t or name == "D42." + t or name.endswith("." + t):
                res[t] = axs
    return res, out


def leanchecker(modules, timeout=3000):
    with Lock():
        p = subprocess.run(["lake", "env", "leanchecker"] + list(modules), cwd=LEAN,
                           stdout=subprocess.PIPE, stderr=subprocess.STDOUT, timeout=timeout)
    return p.returncode == 0, p.stdout.decode(errors="replace")
