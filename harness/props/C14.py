"""C14 — from_native(value) denotes exactly that value."""
import math

from ..common import safe_repr
from .. import encode, gen_value, model, runner, scripted_random as SR, sexp
from ..common import d42  # noqa: F401
from ..gen_schema import SchemaGen
from d42 import validate
from d42.utils import from_native

MODULE = "D42.Props.C14All"
THEOREMS = ["fromNative_total", "fromNative_refuses", "fromNative_error_kind", "fromNative_accepts",
            "fromNative_generates", "fromNative_exact",
            "fromNative_eq_extracted", "subst_scalar_eq_extracted",
            "extracted_ladder_accepts", "extracted_ladder_error_kind"]
FILES = ["D42/Model/Data.lean", "D42/Model/Validate.lean", "D42/Model/Subst.lean", "D42/Model/Gen.lean",
         "D42/Spec/Conforms.lean", "D42/Props/C02.lean", "D42/Props/C14.lean",
         "D42/Model/CheckProg.lean", "D42/Model/SubstProg.lean", "D42/Gen/SubstProg.lean", "D42/Props/SubstProg.lean", "D42/Props/C14All.lean"]

EVIDENCE = dict(
    level="proof",
    checker_cmd="lake build D42.Props.C14All d42model && lake env lean <#print axioms audit>",
    trusted=["Lean kernel; standard axioms", "fromNative model tied to the code by structural comparison of the produced schema"],
    rule="nested plain values (depth<=3/4) and hostile values; probes: copies and every single-step perturbation at every depth; "
         "non-trivial = nested value")


def same(v, w):
    """structural equality up to True/1, False/0 and the float tolerance"""
    if isinstance(v, (bool, int)) and not isinstance(v, float):
        if isinstance(v, bool) != isinstance(w, bool):
            return False   # bool schema rejects ints and the int schema accepts bools: kind decides, see below
        return isinstance(w, (bool, int)) and not isinstance(w, float) and v == w
    if isinstance(v, float):
        return isinstance(w, float) and (v == w or math.isclose(v, w))
    if isinstance(v, list):
        return isinstance(w, list) and len(v) == len(w) and all(same(a, b) for a, b in zip(v, w))
    if isinstance(v, dict):
        return isinstance(w, dict) and set(v.keys()) == set(w.keys()) and all(same(v[k], w[k]) for k in v)
    try:
        return _kind(v) == _kind(w) and v == w
    except Exception:
        return False


def _kind(x):
    """the built-in kind a value belongs to (a plain subclass of a built-in is that built-in)"""
    import datetime
    import uuid
    for k in (bool, int, float, str, bytes, list, dict, uuid.UUID, datetime.datetime, datetime.date, type(None)):
        if isinstance(x, k):
            return k
    return type(x)


def same_lenient(v, w):
    """as `same`, but an int value may be met by the bool it equals (isinstance(True, int))"""
    if isinstance(v, int) and not isinstance(v, bool):
        return isinstance(w, int) and v == w
    if isinstance(v, list):
        return isinstance(w, list) and len(v) == len(w) and all(same_lenient(a, b) for a, b in zip(v, w))
    if isinstance(v, dict):
        return isinstance(w, dict) and set(v.keys()) == set(w.keys()) and all(same_lenient(v[k], w[k]) for k in v)
    return same(v, w)


def text_twins(v, limit=40):
    """values that differ from v only by replacing one str (at any depth, keys excluded) with a DIFFERENT str a normalising
    comparison would identify with it: NFC / NFD / NFKC / NFKD forms, case variants, surrounding blanks, an invisible
    character appended"""
    import copy
    import unicodedata
    out = []

    def variants(s):
        vs = [unicodedata.normalize(f, s) for f in ("NFC", "NFD", "NFKC", "NFKD")] + [s.lower(), s.upper(), s.casefold(), s.strip(), s + " ",
                                                                                    " " + s, s + "\u200b", s + "\n", s.replace("\r\n", "\n")]
        return [x for x in dict.fromkeys(vs) if x != s]

    def rec(x, rebuild):
        if len(out) >= limit:
            return
        if isinstance(x, str):
            for y in variants(x):
                out.append(rebuild(y))
        elif isinstance(x, list):
            for i, m in enumerate(x[:6]):
                rec(m, lambda y, i=i, x=x: rebuild(x[:i] + [y] + x[i + 1:]))
        elif isinstance(x, dict):
            for k, m in list(x.items())[:6]:
                rec(m, lambda y, k=k, x=x: rebuild({**x, k: y}))
    rec(v, lambda y: y)
    return out[:limit]


def run(ctx):
    from .. import extract_substitutor
    ok, msg = extract_substitutor.run()
    if not ok:
        ctx.breakage("translation", "substitutor / from_native extraction failed (d42/utils/_from_native.py or the scalar "
                     "visit_* methods of d42/substitution/_substitutor.py no longer consist of the recognised idioms): " + msg)
    runner.prove(ctx, MODULE, THEOREMS, FILES)
    from .. import limits
    limits.recursion_probe(ctx, "C14")
    g = SchemaGen(ctx.rnd)
    vals = [g.plain_value(ctx.n(3, 4)) for _ in range(ctx.n(150, 1200))]
    if not ctx.quick():
        # thorough: the whole small-scope value universe (incl. values from_native must refuse) and pairs of them
        from .. import smallscope
        sv = [x for x in smallscope.values() if gen_value.is_plain(x) and not isinstance(x, tuple)]   # the refusal branch has its own inputs
        vals += sv + [[a, b] for a in sv[:23] for b in sv[:23]] + [{"a": a, "b": b} for a in sv[:23] for b in sv[:23]]
        ctx.cov["smallscope_values"] = len(sv)
    # long containers of fixed scalars, with members replaced by their ==-equal twins of another kind at the first, a middle
    # and the last position (checked below in addition to the sampled perturbations)
    longs = [list(range(100, 120)), [float(i) for i in range(16)], [b"x"] * 16, ["s%d" % i for i in range(30)], {"k%02d" % i: i for i in range(20)},
             {"xs": list(range(18))}, [[1, 2.0, "s"] * 6]]
    vals += longs
    # every edge scalar alone and nested
    from ..substcorr import edge_scalars
    for a in edge_scalars() + ["caf\u00e9", "cafe\u0301", "\u00c5", "\u212b", "\ufb01", "Stra\u00dfe", "ABC", "abc ", "a\r\nb"]:
        vals += [a, [a], {"k": a}, [1, [a, {"x": a}]]]
    # values in which the very same container object occurs at several positions (non-cyclic sharing)
    for _ in range(ctx.n(40, 300)):
        shared = ctx.rnd.choice([[1, 2], {"a": 1}, [], {}, [[0]], {"k": [1]}])
        shape = ctx.rnd.choice(["ll", "dd", "deep", "mixed"])
        if shape == "ll":
            vals.append([shared, shared])
        elif shape == "dd":
            vals.append({"home": shared, "work": shared})
        elif shape == "deep":
            vals.append([[shared], {"x": [shared]}])
        else:
            vals.append({"a": [shared, 1], "b": shared})
    reqs, exp, info = [], [], []
    for v in vals:
        nested = isinstance(v, (list, dict)) and len(v) > 0
        ctx.case(safe_repr(v), nested)
        if gen_value.has_nan(v):
            continue
        try:
            s = from_native(v)
        except Exception as e:  # noqa: BLE001
            ctx.violation("from_native raised %s on a plain value" % type(e).__name__, value=safe_repr(v))
            continue
        if validate(s, v).has_errors():
            ctx.violation("from_native(v) rejects v", value=safe_repr(v), schema=safe_repr(s))
        for pol in ("lo", "hi"):
            (k, gv), log = SR.generate(s, SR.make_policy(pol, ctx.rnd))
            if k != "ok" or not same(v, gv) or safe_repr(gv) != safe_repr(v):
                ctx.violation("from_native(v) does not generate exactly v", value=safe_repr(v), generated=safe_repr(gv))
                break
            if any(e[0] in ("int", "idx", "chr", "uniform") for e in log):
                ctx.violation("from_native(v) consumes randomness when generating", value=safe_repr(v), draws=log[:5])
                break
        twins = []
        if isinstance(v, (list, dict)) and len(v) >= 16:
            items = list(v.items()) if isinstance(v, dict) else list(enumerate(v))
            for pos in (0, len(items) // 2, len(items) - 1):
                k, x = items[pos]
                tw = float(x) if (isinstance(x, int) and not isinstance(x, bool)) else (int(x) if isinstance(x, float) and x == int(x) else
                                                                                           (bytearray(x) if isinstance(x, bytes) else None))
                if tw is not None:
                    c = dict(v) if isinstance(v, dict) else list(v)
                    c[k] = tw
                    twins.append(c)
        ps = gen_value.perturb(v, ctx.rnd, zoo_n=2)
        for w in twins + text_twins(v) + ctx.rnd.sample(ps, min(len(ps), ctx.n(25, 80))):
            ctx.count("probes")
            try:
                acc = not validate(s, w).has_errors()
            except Exception:
                continue
            if acc and not same_lenient(v, w):
                ctx.violation("from_native(v) accepts a value that differs from v", value=safe_repr(v), accepted=safe_repr(w), schema=safe_repr(s))
                break
            if not acc and same(v, w) and not gen_value.has_nan(w):
                ctx.violation("from_native(v) rejects a copy of v", value=safe_repr(v), rejected=safe_repr(w))
                break
        I = encode.Interner()
        try:
            reqs.append(["fromnative", encode.enc_value(v, I)])
            exp.append(["ok", encode.tostr(encode.enc_schema(s, I))])
            info.append(v)
        except encode.Unencodable:
            reqs = reqs[:len(exp)]
    # other kinds are refused with ValueError
    from d42 import optional
    # the library's own markers as DATA: dicts whose keys are `optional(...)` objects or `...` are not plain values
    dsl_marked = [{optional("a"): 1}, {"a": 1, optional("b"): 2}, {optional("a"): {optional("b"): 1}}, {...: ...}, {"a": 1, ...: ...},
                  optional("a"), [optional("a")]]
    for bad in gen_value.zoo() + dsl_marked:
        if gen_value.is_plain(bad):
            continue
        for v in (bad, [1, bad], {"a": {"b": [bad]}}):
            ctx.count("refusal_probes")
            try:
                s = from_native(v)
                ctx.violation("from_native accepted an unsupported kind of value", value=safe_repr(v), schema=safe_repr(s))
            except ValueError:
                pass
            except Exception as e:  # noqa: BLE001
                ctx.violation("from_native refused with %s, not ValueError" % type(e).__name__, value=safe_repr(v))
            I = encode.Interner()
            try:
                reqs.append(["fromnative", encode.enc_value(v, I)])
                exp.append(["exc", "ValueError"])
                info.append(v)
            except encode.Unencodable:
                reqs = reqs[:len(exp)]
    res = model.run_batch(reqs)
    bad = 0
    for r, e, v in zip(res, exp, info):
        if r != e:
            bad += 1
            if bad <= 10:
                ctx.breakage("correspondence", "from_native result differs between model and code", value=safe_repr(v),
                             detail=f"real {sexp.dumps(e)[:300]}\nmodel {sexp.dumps(r)[:300] if not isinstance(r, str) else r}")
    ctx.cov["corr_cases"] = len(reqs)
    ctx.cov["corr_disagreements"] = bad
    for v in vals[:5]:
        ctx.sample({"value": safe_repr(v)})


def replay(path):
    print(open(path).read()[:6000])
    return 0


MANIFEST = dict(
    category="proof",
    technique="Lean 4 theorems fromNative_accepts / fromNative_generates / fromNative_refuses + structural correspondence"
              " + from_native / substitutor translator",
    text="Theorems in Props/C14.lean: for every plain value the model's from_native schema accepts the value and generates it "
         "from any draw list without consuming a draw, and every other kind of value is refused with ValueError; tie: the schema "
         "produced by model and code compared structurally on generated nested values; search: copies and single-step perturbations "
         "at every depth on the real code."
         " Translator: the isinstance ladder of from_native and the three-statement idiom of every scalar Substitutor.visit_* are extracted (Gen/SubstProg.lean); fromNative_eq_extracted and subst_scalar_eq_extracted prove the hand model equal to them for every input. Source pins: the normalised text of every anchor file is compared with the text the model was last validated against; a changed file is a broken obligation (no-failing-input-found unless the search finds an input).",
    note="Partial under NoNaN (K6). Trusted: Lean kernel + standard axioms, hand model (sampling tie), codec.")
