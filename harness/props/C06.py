"""C06 — repr(schema) is DSL source that rebuilds an equal schema."""
import datetime
from uuid import UUID

from .. import encode, gen_value, model, rebuild, runner, valcases
from ..common import d42  # noqa: F401
from d42 import optional, represent, schema, substitute
from d42.representation import Representor

MODULE = "D42.Props.C06All"
THEOREMS = ["repr_scalar_roundtrip", "reprScalar_eq_calls", "repr_scalar_stable", "pattern_excludes_len",
            "represent_listE_layout", "reprElems_indent",
            "rebuild_roundtrip", "rebuild_same_repr", "rebuild_roundtrip_counterexample", "hC06C_rebuild_roundtrip_iff", "declarable_example",
            "reprScalar_eq_extracted", "lenToks_eq",
            "extracted_print_eq_calls", "extracted_print_roundtrip"]
FILES = ["D42/Model/Data.lean", "D42/Model/Repr.lean", "D42/Model/Decl.lean", "D42/Props/C11.lean", "D42/Props/C06.lean", "D42/Props/C06Containers.lean",
         "D42/Model/CheckProg.lean", "D42/Model/ReprProg.lean", "D42/Gen/ReprProg.lean", "D42/Props/ReprProg.lean", "D42/Props/C06All.lean"]

EVIDENCE = dict(
    level="proof",
    checker_cmd="lake build D42.Props.C06All d42model && lake env lean <#print axioms audit>",
    trusted=["Lean kernel; standard axioms", "Python evaluates the printed text to the call tree it denotes (CPython's parser)",
             "literal rendering (repr of str/float/bytes/UUID/datetime) is CPython's; the model prints holes the harness fills",
             "representation model tied to the code by exact text comparison at several indents on this run's schemas"],
    rule="declarable schemas without aliases/custom types (all types, value+constraint combos, all len forms, nested lists/dicts "
         "with arbitrary hashable keys, any-unions, results of + and make_required, from_native) at indents 0/4/3; non-trivial = "
         "nested at depth >= 1")

R = Representor()
ENV = {"schema": schema, "optional": optional, "UUID": UUID, "datetime": datetime}


def has_nonfinite(s):
    from niltype import Nil
    from d42.declaration.types import FloatSchema
    import math
    for x in rebuild.subschemas(s):
        if isinstance(x, FloatSchema):
            for n in ("value", "min", "max"):
                v = x.props.get(n)
                if isinstance(v, float) and not math.isfinite(v):
                    return True
    return False


def operator_built(ctx):
    """directed: schemas built with the DSL's OPERATORS — `|` in every association over 2-5 operands (operands that are
    unions themselves included), `+` chains of dicts, make_required — alone and nested in lists / dicts / unions"""
    from d42 import optional
    from d42.utils import make_required
    leaves = [lambda: schema.int, lambda: schema.str("a"), lambda: schema.none, lambda: schema.list(schema.int),
              lambda: schema.dict({"a": schema.int}), lambda: schema.float(1.5), lambda: schema.bool, lambda: schema.int(3),
              lambda: schema.any(schema.bytes, schema.date)]
    out = []

    def trees(lo, hi):
        """every binary association of leaves[lo:hi] (in order)"""
        if hi - lo == 1:
            return [leaves[lo % len(leaves)]]
        res = []
        for mid in range(lo + 1, hi):
            for l in trees(lo, mid):
                for r in trees(mid, hi):
                    res.append(lambda l=l, r=r: l() | r())
        return res
    builders = []
    for n in (2, 3, 4, 5):
        for start in (0, 2, 5):
            builders += trees(start, start + n)
    builders += [
        lambda: schema.any(schema.int, schema.str) | schema.any(schema.none, schema.bool),
        lambda: schema.any(schema.int | schema.str, schema.none | schema.bool),
        lambda: schema.int | schema.any(schema.str, schema.none),
        lambda: schema.any(schema.int, schema.str) | schema.none,
        lambda: (schema.int | schema.str) | (schema.none | schema.bool) | (schema.float | schema.bytes),
        lambda: schema.any(schema.any(schema.any(schema.int, schema.str), schema.none), schema.bool) | schema.any(schema.float),
        lambda: schema.dict({"a": schema.int}) + schema.dict({"b": schema.str}),
        lambda: schema.dict({"a": schema.int, ...: ...}) + schema.dict({optional("b"): schema.str}),
        lambda: (schema.dict({"a": schema.int}) + schema.dict({"a": schema.str, "c": schema.none})) + schema.dict({...: ...}),
        lambda: schema.dict({optional("a"): schema.int}) + schema.dict({"a": schema.int | schema.none}),
        lambda: make_required(schema.dict({optional("a"): schema.int, optional("b"): schema.str | schema.none})),
        lambda: make_required(schema.dict({optional("a"): schema.int, optional("b"): schema.str}), ["a"]),
        lambda: make_required(schema.dict({optional("a"): schema.int}) + schema.dict({optional("b"): schema.any})),
    ]
    import datetime as _d
    import uuid as _u
    tzs = [_d.timezone.utc, _d.timezone(_d.timedelta(hours=-5)), _d.timezone(_d.timedelta(hours=5, minutes=30)), _d.timezone(_d.timedelta(hours=-9, minutes=-30)),
           _d.timezone(_d.timedelta(seconds=-1)), _d.timezone(_d.timedelta(hours=14)), _d.timezone(_d.timedelta(hours=-12), "X")]
    for tz in tzs:
        builders.append(lambda tz=tz: schema.datetime(_d.datetime(2024, 2, 29, 23, 59, 59, 999999, tzinfo=tz)))
        builders.append(lambda tz=tz: schema.dict({"at": schema.datetime(_d.datetime(1999, 12, 31, 0, 0, tzinfo=tz)), "d": schema.date(_d.date(2024, 2, 29))}))
    builders += [lambda: schema.datetime(_d.datetime.min), lambda: schema.datetime(_d.datetime.max), lambda: schema.date(_d.date.min), lambda: schema.date(_d.date.max),
                 lambda: schema.datetime(_d.datetime(2024, 1, 1, 0, 0, fold=1)), lambda: schema.uuid4(_u.UUID("12345678-1234-4234-8234-123456789abc")),
                 lambda: schema.date(_d.datetime(2024, 2, 29, 12, 0))]
    for mk in builders:
        try:
            u = mk()
        except Exception:  # noqa: BLE001
            ctx.count("operator_built_undeclarable")
            continue
        for wrap in (lambda x: x, lambda x: schema.list(x), lambda x: schema.list([x, ...]),
                     lambda x: schema.dict({"k": x, optional("o"): x}), lambda x: schema.any(x, schema.datetime),
                     lambda x: x | schema.uuid4, lambda x: schema.uuid4 | x):
            try:
                out.append((wrap(u), None))
            except Exception:  # noqa: BLE001
                ctx.count("operator_built_undeclarable")
    ctx.count("operator_built_schemas", len(out))
    return out


def run(ctx):
    from .. import extract_representor
    ok, msg = extract_representor.run()
    if not ok:
        ctx.breakage("translation", "representor extraction failed (the scalar visit_* methods of d42/representation/"
                     "_representor.py no longer consist of the recognised idioms): " + msg)
    runner.prove(ctx, MODULE, THEOREMS, FILES)
    pairs = valcases.scalar_corpus() + valcases.schema_batch(ctx, ctx.n(150, 1200), customs=False, aliases=False,
                                                              max_depth=ctx.n(4, 5))
    if not ctx.quick():
        # thorough: EVERY schema of the small scope (round trip on the real code + printed text vs the model)
        from .. import smallscope
        pairs = pairs + [(x, None) for x in smallscope.schemas()]
        ctx.cov["smallscope_schemas"] = len(smallscope.schemas())
    # results of substitution are declarable schemas as well
    extra = []
    for s, w in pairs[: ctx.n(40, 300)]:
        try:
            extra.append((substitute(s, w), w))
        except Exception:
            pass
    extra_ops = operator_built(ctx)
    # every schema a declaration chain can build is declarable too — satisfiable or not, in any declaration order
    from .. import gen_chain as GC
    from .C11 import UNIVERSE
    import itertools
    chained = []
    for _ in range(ctx.n(1500, 12000)):
        facade, ops = GC.gen_chain(ctx.rnd, 4)
        cur = getattr(schema, facade)
        try:
            for op in ops:
                cur = GC.apply_real(cur, op)
            chained.append((cur, None))
        except Exception:
            pass
    for facade, u in UNIVERSE.items():
        facade = u.get("facade", facade)
        for value in u["values"]:
            for combo in itertools.permutations(u["ops"], 2):
                if combo[0][0] == combo[1][0]:
                    continue
                cur = getattr(schema, facade)
                try:
                    if value is not None:
                        cur = cur(value)
                    for m, a in combo:
                        cur = getattr(cur, m)(*a)
                    chained.append((cur, None))
                except Exception:
                    pass
    ctx.count("schemas_from_declaration_chains", len(chained))
    reqs, info = [], []
    from d42.declaration.types import GenericTypeAliasSchema
    # NOTE: results of `%` are NOT "built through the declaration DSL" (C06's scope): e.g. schema.any(schema.int, schema.any) % 0
    # is any(int(0), any(int(0))) — built without the flattening every declaration performs — and prints text that evaluates
    # to the flattened union. They take part in the text correspondence (model vs code) only.
    n_declared = len(pairs) + len(extra_ops)
    for idx, (s, w) in enumerate(pairs + extra_ops + chained + extra):
        from_subst = idx >= n_declared + len(chained)
        if any(isinstance(x, GenericTypeAliasSchema) for x in rebuild.subschemas(s)):
            ctx.count("skipped_alias")       # the property is about schemas without type aliases or custom types
            continue
        nested = len(rebuild.subschemas(s)) > 1
        try:
            text = repr(s)
        except Exception as e:  # noqa: BLE001
            ctx.violation("repr(schema) raised %s" % type(e).__name__, exception=repr(e)[:300],
                          schema_class=type(s).__name__, declared_props=sorted(str(k) for k in s.props), py_schema=None)
            continue
        ctx.case(text, nested)
        if has_nonfinite(s):
            ctx.count("skipped_nonfinite_float")   # K6 family: `inf`/`nan` literals are not evaluable
            continue
        info_d = dict(schema_text=text, py_schema=s)
        if text != represent(s) or text != repr(rebuild.clone(s)):
            ctx.violation("repr is not deterministic (repr / represent / repr of an independent rebuild differ)", **info_d)
        if not from_subst:
            try:
                back = eval(text, dict(ENV))
            except Exception as e:  # noqa: BLE001
                ctx.violation("the printed text does not evaluate (%s: %s)" % (type(e).__name__, e), **info_d)
                continue
            if not (back == s) or not (s == back):
                ctx.violation("evaluating the printed text yields a schema that is not equal to the original",
                              rebuilt_props=repr(back.props), original_props=repr(s.props), **info_d)
            elif repr(back) != text:
                ctx.violation("the rebuilt schema prints differently", rebuilt_text=repr(back), **info_d)
        else:
            ctx.count("substitution_results_text_only")
        I = encode.Interner()
        try:
            es = encode.enc_schema(s, I)
        except encode.Unencodable:
            ctx.count("skipped_unencodable")
            continue
        for ind in (0, 4, 3):
            reqs.append(["repr", es, ind])
            info.append((s, I, ind))
    res = model.run_batch(reqs)
    bad = 0
    for r, (s, I, ind) in zip(res, info):
        ctx.count("corr_cases")
        real = s.__accept__(R, indent=ind)
        try:
            got = encode.render_toks(r, I) if not isinstance(r, str) else r
        except Exception as e:  # noqa: BLE001
            got = "render failed: %r" % e
        if real != got and "True" not in real and "False" not in real:
            bad += 1
            if bad <= 10:
                ctx.breakage("correspondence", "printed text differs between model and code", indent=ind,
                             detail=f"real:\n{real[:600]}\nmodel:\n{got[:600]}")
    ctx.cov["corr_disagreements"] = bad
    for s, w in pairs[:400:80]:
        ctx.sample({"text": repr(s)[:400]})


def replay(path):
    print(open(path).read()[:6000])
    return 0


MANIFEST = dict(
    category="proof",
    technique="Lean 4 theorems about the representation model (call-tree replay through the declaration model) + exact text "
              "correspondence + eval(repr(s)) search on the real code"
              " + representor translator (print programs extracted from the source)",
    text="Props/C06.lean: replaying the calls printed for a scalar schema through the declaration model rebuilds exactly "
         "the schema (repr_scalar_roundtrip) and the printed tokens are exactly those calls (reprScalar_eq_calls), hence "
         "the same text again (repr_scalar_stable); pattern and len are never both printed (pattern_excludes_len); "
         "containers print members at indent+4 and close at indent (layout lemmas). Props/C06Containers.lean: "
         "rebuild_roundtrip — evaluating the printed calls bottom-up rebuilds exactly the schema for every schema built by "
         "any sequence of declaration calls, at any nesting depth (lists of a type / of elements with ... markers and len, "
         "dicts with optional keys and ...: ... at its position, unions), rebuild_same_repr. Tie: the model's token stream "
         "with CPython-rendered literals equals the real repr at indents 0/4/3; search: eval(repr(s)) == s and prints the "
         "same, on the real code."
         " Translator: the scalar Representor.visit_* methods are extracted as print programs (Gen/ReprProg.lean); reprScalar_eq_extracted proves the hand model prints exactly what they say for every scalar schema. Source pins: the normalised text of every anchor file is compared with the text the model was last validated against; a changed file is a broken obligation (no-failing-input-found unless the search finds an input).",
    note="Partial: finite floats (inf/nan literals are not evaluable, K6 family); an empty union cannot be built or "
         "printed (rebuild_roundtrip_counterexample: schema.any() is a TypeError). Trusted: Lean kernel + standard axioms, "
         "CPython's parser and literal repr, hand model (sampling tie), codec.")
