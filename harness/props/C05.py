"""C05 — substitution only narrows a schema, never widens it."""
from ..common import safe_repr
from .. import gen_value, runner, scripted_random as SR, substcorr, valcases
from ..common import d42  # noqa: F401
from d42 import substitute, validate

MODULE = "D42.Props.C05"
THEOREMS = ["subst_narrows", "subValidate_of_validate", "subst_narrows_float_counterexample"]
FILES = ["D42/Model/Data.lean", "D42/Model/Validate.lean", "D42/Model/Subst.lean", "D42/Props/C14.lean", "D42/Props/C12.lean",
         "D42/Props/C05.lean"]

EVIDENCE = dict(
    level="proof",
    checker_cmd="lake build D42.Props.C05 d42model && lake env lean <#print axioms audit>",
    trusted=["Lean kernel; standard axioms", "substitution + validator models tied to the code by this run's correspondences"],
    rule="for each successful S % v (plain v): probes w = generated from S % v, boundary values of S % v, perturbations of v and "
         "of generated values; checks validate(S % v, w) ok ==> validate(S, w) ok; thorough tier adds every third schema of the small scope x 57 substitution values with the narrowing oracle")


def oracle(ctx, cases):
    for c in cases:
        plain = not gen_value.has_placeholder(c.value)     # C05: "a plain value (no ... placeholders)"
        ctx.case((safe_repr(c.schema), safe_repr(c.value)), c.kind == "ok" and plain)
        if c.kind != "ok" or not plain:
            continue
        r, v, s = c.result, c.value, c.schema
        probes = [v]
        gens = []
        for pol in ("lo", "hi", "rnd"):
            (k, g), _ = SR.generate(r, SR.make_policy(pol, ctx.rnd))
            if k == "ok":
                gens.append(g)
        probes += gens
        try:
            probes += valcases.boundary_values(r, v, 30)
        except Exception:
            pass
        if isinstance(v, float):
            probes += [v * (1 + 9e-10), v * (1 - 9e-10), v + 9e-10, v - 9e-10]
        try:
            probes += valcases.absent_key_probes(s, v)       # keys the schema declares but v does not give
        except Exception:  # noqa: BLE001
            pass
        for base in [v] + gens[:1]:
            ps = gen_value.perturb(base, ctx.rnd, zoo_n=1)
            probes += ctx.rnd.sample(ps, min(len(ps), ctx.n(10, 30)))
        for w in probes:
            try:
                ok_r = not validate(r, w).has_errors()
                ok_s = not validate(s, w).has_errors()
            except Exception:
                continue
            ctx.count("probes")
            if ok_r:
                ctx.count("probes_accepted_by_result")
            if ok_r and not ok_s:
                ctx.violation("S % v accepts a value that S rejects (substitution widened the schema)",
                              schema=safe_repr(s), value=safe_repr(v), result=safe_repr(r), probe=safe_repr(w),
                              errors=safe_repr(validate(s, w).get_errors()[:3]), py_schema=s, py_value=v, py_probe=w)
                break


def run(ctx):
    runner.prove(ctx, MODULE, THEOREMS, FILES)
    cases = substcorr.batch(ctx, ctx.n(90, 700), customs=False) + substcorr.open_dict_any_cases(ctx, ctx.n(150, 1500)) + substcorr.list_window_cases(ctx) + substcorr.untyped_edge_cases(ctx) + substcorr.contains_scan_cases(ctx) + substcorr.untyped_zoo_cases(ctx) + substcorr.defaulting_dict_subst_cases(ctx) + substcorr.subclass_and_degenerate_cases(ctx) + substcorr.relaxed_marker_position_cases(ctx) + substcorr.float_precision_cases(ctx) + substcorr.many_errors_cases(ctx) + substcorr.list_partial_dict_cases(ctx)
    # tight scalar corpus: bounds coinciding with the substituted value
    for s, w in valcases.scalar_corpus():
        if valcases._size(w) > 200:
            continue        # the sizes-past-the-small-int-cache family is about the validator (C02 / C03 / C08)
        cases.append(substcorr.SubCase(s, w, w, "corpus"))
    from d42 import schema
    cases.append(substcorr.SubCase(schema.float(1.0), 1.0, 1.0000000009, "corpus"))
    cases.append(substcorr.SubCase(schema.dict({"x": schema.float(2.5).max(3.0)}), {"x": 2.5}, {"x": 2.5000000012}, "corpus"))
    for c in cases:
        substcorr.run_real(c)
    oracle(ctx, cases)
    dis = substcorr.compare(cases, ctx)
    for c, detail in dis[:10]:
        ctx.breakage("correspondence", "substitution outcome differs between model and code",
                     schema=safe_repr(c.schema), value=safe_repr(c.value), detail=detail, request=c.req)
    ctx.cov["corr_disagreements"] = len(dis)
    if not ctx.quick():
        # thorough: the whole small scope of substitutions with the narrowing oracle on every successful one
        from .. import smallscope
        smallscope.subst_scope(ctx, oracle=oracle, stride=3)
    for c in [c for c in cases if c.kind == "ok"][:200:40]:
        ctx.sample({"schema": safe_repr(c.schema), "value": safe_repr(c.value), "result": safe_repr(c.result)[:300]})


def replay(path):
    print(open(path).read()[:6000])
    return 0


MANIFEST = dict(
    category="proof",
    technique="Lean 4 theorem subst_narrows (mutual induction over the substitution model) + outcome correspondence + narrowing "
              "search on the real code",
    text="Theorem subst_narrows (Props/C05.lean): for every schema S, plain value v and value w, if S % v = S' then S' "
         "accepts w implies S accepts w — at every nesting depth, all list forms, dicts, unions, aliases and custom types; "
         "subst_narrows_float_counterexample shows the excluded case. Tie: substitution outcome and validator verdict "
         "correspondences; search: generated / boundary / perturbed probes on the real code."
         " Source pins: the normalised text of every anchor file is compared with the text the model was last validated against; a changed file is a broken obligation (no-failing-input-found unless the search finds an input).",
    note="Partial: NoFixedFloat — the full statement is false of the code (K7: re-substituting a close float re-centres "
         "the tolerance window). Trusted: Lean kernel + standard axioms, hand models (sampling tie), codec.")
