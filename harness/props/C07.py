"""C07 — schemas are immutable values and all operations on them are pure."""
import copy

from ..common import safe_repr
from .. import encode, gen_chain as GC, gen_value, model, rebuild, runner, scripted_random as SR, sexp, valcases
from ..common import d42  # noqa: F401
from ..gen_schema import SchemaGen
from niltype import Nil
from d42 import fake, optional, represent, schema, substitute, validate
from d42.declaration.types import DictSchema
from d42.utils import from_native, make_required

MODULE = "D42.Props.C07All"
THEOREMS = ["history_appends", "entries_stable", "observations_stable", "result_stable", "hstep_appends",
            "hstep_raise_unchanged", "hstep_observers_pure",
            "writes_are_local", "stores_are_fresh", "Frame.frame", "Frame.frame_many"]
FILES = ["D42/Model/History.lean", "D42/Props/C07.lean",
         "D42/Gen/Effects.lean", "D42/Props/C07Effects.lean", "D42/Props/C07All.lean"]

EVIDENCE = dict(
    level="proof",
    checker_cmd="lake build D42.Props.C07All d42model && lake env lean <#print axioms audit>",
    trusted=["Lean kernel; standard axioms", "the model is purely functional, so immutability holds of it by construction; the "
             "property is about Python aliasing and is decided as a refinement: the implementation's pool must equal the model's "
             "append-only pool after every history, and every entry must keep its creation-time observation"],
    rule="histories of 30 (quick) / 100 (thorough) public operations over a shared pool: refinements (succeeding and raising), "
         "+ | % ~, validate, represent, make_required, [], iteration, from_native, and mutation of caller-owned lists/dicts that "
         "were passed in earlier; after every step every pool entry is re-observed")

PROBES = [None, 0, 1, "a", "ab", [], [1], {}, {"a": 1}, 1.5, True, b"x"]


def observe(s):
    """everything a user can see of a schema without a reference to its internals"""
    try:
        declared = (tuple(s.props), safe_repr(s.props))      # FIRST: the declared properties as `schema.props` lists them
    except Exception as e:  # noqa: BLE001
        declared = type(e).__name__
    try:
        text = safe_repr(s)
    except Exception as e:  # noqa: BLE001
        text = "repr raised " + type(e).__name__
    verdicts = []
    for v in PROBES:
        try:
            verdicts.append(len(validate(s, v).get_errors()))
        except Exception as e:  # noqa: BLE001
            verdicts.append(type(e).__name__)
    try:
        I = encode.Interner()
        enc = sexp.dumps(encode.enc_schema(s, I))
    except Exception as e:  # noqa: BLE001
        enc = "unencodable"
    (k, g), _ = SR.generate(s, SR.make_policy("lo", None))
    gen = safe_repr(g) if k == "ok" else type(g).__name__
    # through the PUBLIC generator (the module-level one every ~schema / fake() shares), with the largest answers: caps and
    # defaults it keeps between calls show up in the ranges it asks for
    (k2, g2), log2 = SR.generate_public(s, SR.make_policy("hi", None))
    gen += " | " + (safe_repr(g2)[:400] if k2 == "ok" else type(g2).__name__) + " | %d draws" % len(log2)
    return (text, tuple(verdicts), enc, gen, declared)


def deep_snapshot(x):
    return safe_repr(x)


class History:
    def __init__(self, ctx):
        self.ctx = ctx
        self.r = ctx.rnd
        self.pool = []          # schemas
        self.obs = []           # creation-time observation of each
        self.owned = []         # caller-owned mutable containers that were passed in: (container, kind)
        self.ops = []           # encoded ops for the model
        self.model_ok = True
        self.log = []

    def add(self, s, how):
        self.pool.append(s)
        self.obs.append(observe(s))
        self.log.append(how)

    def check_all(self, step):
        for i, s in enumerate(self.pool):
            now = observe(s)
            if now != self.obs[i]:
                self.ctx.violation("an existing schema changed its observable behaviour", step=step, history=self.log[-12:],
                                   index=i, before=safe_repr(self.obs[i])[:600], after=safe_repr(now)[:600])
                self.obs[i] = now

    def step(self, n):
        r = self.r
        c = r.random()
        pick = lambda: r.randrange(len(self.pool))   # noqa: E731
        if c < .25:
            i = pick()
            s = self.pool[i]
            facade = type(s).__name__.replace("Schema", "").lower().replace("uuid4", "uuid4")
            if facade not in GC.METHODS:
                return
            m = r.choice(GC.METHODS[facade])
            args = GC.gen_any_args(r) if m == "anycall" else GC.gen_arg(r, facade, m)
            before_args = deep_snapshot(args)
            how = f"pool[{i}].{m}{args!r}"
            # a caller-owned list/dict argument is remembered and mutated later
            for a in args:
                if isinstance(a, (list, dict)):
                    self.owned.append(a)
            try:
                res = GC.apply_real((s), (m, args))
                self.add(res, how)
            except Exception as e:  # noqa: BLE001
                self.log.append(how + " -> " + type(e).__name__)
            if deep_snapshot(args) != before_args:
                self.ctx.violation("a declaration call mutated its argument", call=how)
        elif c < .4:
            i = pick()
            s = self.pool[i]
            w = r.choice([1, "a", [1, 2], {"a": 1}, {"a": {"b": [1]}}, [], None, 1.5, [..., 1], {"k": ...},
                          {"a": 1, ...: ...}, {...: ...}, [{"id": 1, ...: ...}], {"a": {"b": 1, ...: ...}}, {"bad": ..., ...: ...},
                          [1, ...], [..., 1, ...], {"a": [1, ...]}])
            owned = copy.deepcopy(w)
            before = deep_snapshot(owned)
            how = f"pool[{i}] % {owned!r}"
            try:
                res = substitute(s, owned)
                self.add(res, how)
                if isinstance(owned, (list, dict)):
                    self.owned.append(owned)
            except Exception as e:  # noqa: BLE001
                self.log.append(how + " -> " + type(e).__name__)
            if deep_snapshot(owned) != before:
                self.ctx.violation("substitute mutated the value passed in", call=how)
        elif c < .5:
            i, j = pick(), pick()
            try:
                self.add(self.pool[i] | self.pool[j], f"pool[{i}] | pool[{j}]")
            except Exception as e:  # noqa: BLE001
                self.log.append(f"pool[{i}] | pool[{j}] -> {type(e).__name__}")
        elif c < .58:
            ds = [k for k, s in enumerate(self.pool) if isinstance(s, DictSchema)]
            if len(ds) >= 1:
                i, j = r.choice(ds), r.choice(ds)
                try:
                    self.add(self.pool[i] + self.pool[j], f"pool[{i}] + pool[{j}]")
                except Exception as e:  # noqa: BLE001
                    self.log.append(f"pool[{i}] + pool[{j}] -> {type(e).__name__}")
        elif c < .64:
            ds = [k for k, s in enumerate(self.pool) if isinstance(s, DictSchema)]
            if ds:
                i = r.choice(ds)
                keys = self.pool[i].props.get("keys")
                names = [] if keys is Nil else [k for k in keys if k is not Ellipsis]
                arg = None if r.random() < .4 or not names else r.sample(names, r.randint(1, len(names)))
                owned = None if arg is None else list(arg)
                try:
                    self.add(make_required(self.pool[i], owned), f"make_required(pool[{i}], {owned!r})")
                    if owned is not None:
                        self.owned.append(owned)
                except Exception as e:  # noqa: BLE001
                    self.log.append(f"make_required(pool[{i}]) -> {type(e).__name__}")
                if names:
                    k = r.choice(names)
                    self.add(self.pool[i][k], f"pool[{i}][{k!r}]")
                list(self.pool[i])
        elif c < .72:
            v = r.choice([[1, {"a": [2]}], {"a": [1, 2], "b": {"c": None}}, [[1], [2]], {"k": "v"}])
            owned = copy.deepcopy(v)
            try:
                self.add(from_native(owned), f"from_native({owned!r})")
                self.owned.append(owned)
            except Exception as e:  # noqa: BLE001
                self.log.append("from_native -> " + type(e).__name__)
        elif c < .8:
            i = pick()
            v = copy.deepcopy(r.choice([[1, 2], {"a": 1, "b": [1]}, "ab", [{"a": 1}]]))
            before = deep_snapshot(v)
            try:
                validate(self.pool[i], v)
                represent(self.pool[i])
                self.pool[i] == v
                ~self.pool[i]
            except Exception:
                pass
            if deep_snapshot(v) != before:
                self.ctx.violation("validate / == mutated the value passed in", index=i, value=before)
            self.log.append(f"validate/represent/==/~ pool[{i}]")
        elif c < .9 and self.owned:
            # the caller mutates a list/dict it passed in earlier
            o = r.choice(self.owned)
            try:
                if isinstance(o, list):
                    k = r.random()
                    if k < .4:
                        o.append(schema.str if r.random() < .5 else 99)
                    elif k < .7 and o:
                        o.pop()
                    elif o and isinstance(o[0], list):
                        o[0].append(7)
                    else:
                        o.insert(0, schema.none)
                else:
                    k = r.random()
                    if k < .4:
                        o["~later~"] = schema.int if r.random() < .5 else 1
                    elif o:
                        key = r.choice(list(o))
                        if isinstance(o[key], list):
                            o[key].append(5)
                        elif isinstance(o[key], dict):
                            o[key]["~deep~"] = 1
                        else:
                            del o[key]
                self.log.append("caller mutates a container it passed in earlier")
            except Exception:
                pass
        else:
            # repeating an operation on equal inputs gives equal results
            i = pick()
            s = self.pool[i]
            c2 = rebuild.clone(s)
            for f, what in ((lambda x: x | schema.none, "| none"), (lambda x: substitute(x, 1), "% 1"),
                            (lambda x: safe_repr(x), "repr")):
                try:
                    a = f(s)
                except Exception as e:  # noqa: BLE001
                    a = type(e).__name__
                try:
                    b = f(c2)
                except Exception as e:  # noqa: BLE001
                    b = type(e).__name__
                same = (a == b) if not hasattr(a, "props") else (observe(a) == observe(b))
                if not same:
                    self.ctx.violation("repeating an operation on equal inputs gave different results", op=what,
                                       schema=safe_repr(s), first=safe_repr(a), second=safe_repr(b))
            self.log.append(f"repeat ops on pool[{i}] and on an equal rebuild")


def directed_value_purity(ctx):
    """every substitution branch against values that carry `...` markers (element lists, `...: ...` entries, `...` members):
    the value passed in is the same afterwards — whether the call returns or raises — and doing it again gives an equal result"""
    schemas = [schema.dict, schema.dict({...: ...}), schema.dict({"a": schema.int, ...: ...}), schema.dict({"a": schema.dict}),
               schema.list, schema.list(schema.dict), schema.list([schema.dict, ...]), schema.list([..., schema.dict({...: ...})]),
               schema.any, schema.any(schema.dict, schema.none), schema.any(schema.dict({...: ...}), schema.list(schema.dict))]
    values = [{"a": 1, ...: ...}, {...: ...}, {"id": 1, "name": "b", ...: ...}, {"bad": ..., ...: ...}, {"a": {"b": 1, ...: ...}},
              [{"id": 1, ...: ...}], [{"id": 1, ...: ...}, {"id": 2, ...: ...}], [..., {"x": 1, ...: ...}], [1, ...], [..., 1, ...],
              {"a": [1, ...]}, {"k": ...}, {}, []]
    for s in schemas:
        for v0 in values:
            v = copy.deepcopy(v0)
            shared = None
            if isinstance(v, list) and len(v) == 1 and isinstance(v[0], dict):
                v = [v[0], v[0]]        # the same object twice
                shared = True
            before = deep_snapshot(v)
            outs = []
            for _ in range(2):
                try:
                    outs.append(("ok", observe(substitute(s, v))))
                except Exception as e:  # noqa: BLE001
                    outs.append(("exc", type(e).__name__))
            ctx.count("directed_value_purity_cases")
            if deep_snapshot(v) != before:
                ctx.violation("substitute mutated the value passed in", call=f"{s!r} % {v0!r}", before=before, after=deep_snapshot(v),
                              same_object_twice=bool(shared))
            elif outs[0] != outs[1]:
                ctx.violation("repeating an operation on equal inputs gave different results", op="%", schema=safe_repr(s), value=before,
                              first=safe_repr(outs[0])[:300], second=safe_repr(outs[1])[:300])


def directed_lookup_purity(ctx):
    """validate / == / validate_or_fail / substitute on dict subclasses whose item lookup has side effects
    (collections.defaultdict inserts on a miss; a counting dict records every access): the value is the same afterwards"""
    import collections
    from d42 import validate_or_fail

    class Counting(dict):
        def __missing__(self, key):
            self[key] = "made-up"
            return self[key]
    schemas = [schema.dict({"name": schema.str, "tags": schema.list(schema.str)}), schema.dict({"name": schema.str, optional("tags"): schema.list}),
               schema.dict({"a": schema.dict({"b": schema.int, optional("c"): schema.int}), ...: ...}),
               schema.list(schema.dict({"id": schema.int, "x": schema.none})), schema.any(schema.dict({"k": schema.int}), schema.none),
               schema.dict]
    makers = [lambda: collections.defaultdict(list, {"name": "bob"}), lambda: collections.defaultdict(dict, {"a": collections.defaultdict(int)}),
              lambda: Counting(name="bob"), lambda: collections.OrderedDict(name="bob"), lambda: [collections.defaultdict(lambda: None, {"id": 1})],
              lambda: collections.defaultdict(int), lambda: Counting()]
    ops = [("validate", lambda s, v: validate(s, v)), ("==", lambda s, v: s == v), ("validate_or_fail", lambda s, v: validate_or_fail(s, v)),
           ("%", lambda s, v: substitute(s, v)), ("from_native", lambda s, v: from_native(v))]
    for s in schemas:
        for mk in makers:
            for name, op in ops:
                v = mk()
                before = deep_snapshot(v)
                try:
                    op(s, v)
                except Exception:  # noqa: BLE001
                    pass
                ctx.count("directed_lookup_purity_cases")
                if deep_snapshot(v) != before:
                    ctx.violation("an operation mutated the value passed in", op=name, schema=safe_repr(s), before=before, after=deep_snapshot(v))


def directed_path_purity(ctx):
    """validate(schema, value, path=p): the caller's path holder is the same afterwards, and doing it again — also with
    another schema — reports the same paths (a holder handed on instead of copied shows up here)"""
    from th import PathHolder
    schemas = [schema.list(schema.int), schema.alias("A", schema.list(schema.int)), schema.any(schema.list(schema.int), schema.list(schema.str)),
               schema.list([schema.int, ...]), schema.list([..., schema.int, ...]), schema.dict({"id": schema.int, "xs": schema.list(schema.str)}),
               schema.any(schema.dict({"k": schema.int}), schema.none), schema.list(schema.list(schema.int)), schema.int,
               schema.alias("A", schema.alias("B", schema.dict({"id": schema.int})))]
    values = [[1, 2, "x"], [1, "a"], [], {"id": "x", "xs": [1]}, {"k": "v"}, [[1], ["x"]], "s", {"id": 1, "xs": ["a", 2]}]
    for s in schemas:
        for v in values:
            p = PathHolder("body")
            before = safe_repr(p)
            runs = []
            for _ in range(2):
                try:
                    runs.append(sorted(safe_repr(e.path) for e in validate(s, v, path=p).get_errors()))
                except Exception as e:  # noqa: BLE001
                    runs.append(type(e).__name__)
            ctx.count("directed_path_purity_cases")
            if safe_repr(p) != before:
                ctx.violation("validate mutated the path holder passed in", schema=safe_repr(s), value=safe_repr(v), before=before, after=safe_repr(p))
            elif runs[0] != runs[1]:
                ctx.violation("repeating an operation on equal inputs gave different results", op="validate(path=...)", schema=safe_repr(s),
                              value=safe_repr(v), first=runs[0][:4], second=runs[1][:4])
            # without a caller path: every error path of a failing union starts where the union sits
            try:
                for e in validate(schema.dict({"u": s}), {"u": v}).get_errors():
                    if not safe_repr(e.path).startswith("PathHolder()['u']"):
                        ctx.violation("an error path does not start at the position being validated", schema=safe_repr(s), value=safe_repr(v),
                                      path=safe_repr(e.path))
                        break
            except Exception:  # noqa: BLE001
                pass


def directed_scale_purity(ctx):
    """wide and deep schemas (20 keys, 20 elements, 12 alternatives, nesting 6) through every public operation: the operands
    and an independently built twin stay observably the same (a fast path for big schemas that patches shared state shows here)"""
    def wide_dict():
        return schema.dict({(optional("k%02d" % i) if i % 3 == 0 else "k%02d" % i): (schema.int if i % 2 else schema.str) for i in range(20)})

    def wide_list():
        return schema.list([schema.int if i % 2 else schema.str for i in range(20)])

    def wide_any():
        return schema.any(*[schema.int(i) for i in range(6)], *[schema.str.len(i) for i in range(6)])

    def deep6():
        s = schema.int.min(0)
        for i in range(6):
            s = schema.dict({"d": s, optional("o"): schema.int}) if i % 2 else schema.list([schema.none, s, ...])
        return s
    makers = [wide_dict, wide_list, wide_any, deep6]
    ops = [("make_required few", lambda s: make_required(s, ["k00", "k03"])), ("make_required one", lambda s: make_required(s, ["k06"])),
           ("make_required all", lambda s: make_required(s)), ("+ small", lambda s: s + schema.dict({"k01": schema.none, "zz": schema.int})),
           ("+ wide", lambda s: s + wide_dict()), ("% partial", lambda s: substitute(s, {"k01": 5, "k02": "x"})),
           ("% list", lambda s: substitute(s, [("s" if i % 2 == 0 else i) for i in range(20)])), ("% 3", lambda s: substitute(s, 3)),
           ("| none", lambda s: s | schema.none), ("| self", lambda s: s | s), ("getitem", lambda s: s["k03"]), ("iterate", lambda s: list(s)),
           ("repr", lambda s: safe_repr(s)), ("validate", lambda s: validate(s, {"k01": 1})), ("fake", lambda s: SR.generate(s, SR.make_policy("lo", ctx.rnd))),
           ("% deep", lambda s: substitute(s, [None, {"d": [None, {"d": [None, {"d": 1}]}]}]))]
    for mk in makers:
        for name, op in ops:
            s, twin = mk(), mk()
            before = observe(s)
            for _ in range(3):          # the third time counts too
                try:
                    op(s)
                except Exception:  # noqa: BLE001
                    pass
            ctx.count("directed_scale_purity_cases")
            if observe(s) != before:
                ctx.violation("an existing schema changed its observable behaviour", step=name, history=[mk.__name__, name],
                              before=safe_repr(before)[:500], after=safe_repr(observe(s))[:500])
            elif observe(twin) != before:
                ctx.violation("an independently built equal schema changed its observable behaviour", step=name, maker=mk.__name__)


def order_independence(ctx):
    """results do not depend on what was executed before: the same value-only operations are evaluated here in one order and
    in a fresh interpreter in the reverse order (a cache or any other state shared between calls shows up as a difference)"""
    import json
    import subprocess
    import sys
    r = ctx.rnd
    scal = [True, 1.0, False, 0.0, -0.0, 1, 0, -1, 2.5, "a", "", None, "1", 10 ** 12, 1e12]

    def val(d):
        c = r.random()
        if d <= 0 or c < .45:
            return r.choice(scal)
        if c < .75:
            return [val(d - 1) for _ in range(r.randint(0, 3))]
        return {k: val(d - 1) for k in r.sample(["a", "b", "n", "ratio"], r.randint(0, 3))}
    ops = []
    for _ in range(ctx.n(120, 1200)):
        kind = r.choice(["from_native", "any", "list", "dict", "from_native"])
        v = val(2)
        if kind == "list" and not isinstance(v, list):
            v = [v]
        if kind == "dict" and not isinstance(v, dict):
            v = {"k": v}
        ops.append([kind, v])
    here = []
    for kind, v in ops:
        try:
            res = from_native(copy.deepcopy(v)) if kind == "from_native" else substitute(getattr(schema, kind), copy.deepcopy(v))
            here.append(safe_repr(res))
        except Exception as e:  # noqa: BLE001
            here.append("EXC:" + type(e).__name__)
    from ..common import REPO, VERIF
    import os
    env = dict(os.environ, D42_REPO=REPO, PYTHONDONTWRITEBYTECODE="1")
    p = subprocess.run([sys.executable, os.path.join(VERIF, "harness", "c07_worker.py"), VERIF], input=json.dumps(ops[::-1]).encode(),
                       env=env, stdout=subprocess.PIPE, stderr=subprocess.PIPE, timeout=600)
    if p.returncode != 0:
        raise RuntimeError("c07 worker failed: " + p.stderr.decode()[-1500:])
    there = json.loads(p.stdout.decode())[::-1]
    for (kind, v), a, b in zip(ops, here, there):
        ctx.count("order_independence_ops")
        if a != b:
            call = f"from_native({v!r})" if kind == "from_native" else f"schema.{kind} % {v!r}"
            ctx.violation("the result of an operation depends on what was executed before it", call=call,
                          after_the_preceding_operations=a, in_a_fresh_interpreter_after_the_following_ones=b)
            break


def directed_aliasing(ctx):
    """every way a caller-owned container can be handed to the library, followed at once by every kind of mutation"""
    def muts(c):
        if isinstance(c, list):
            return [lambda x: x.append(schema.str), lambda x: x.insert(0, schema.none), lambda x: x.clear(),
                    lambda x: x.extend([schema.int, schema.int]), lambda x: x.__setitem__(slice(0, 1), [schema.bytes])]
        return [lambda x: x.__setitem__("~new~", schema.int), lambda x: x.clear(), lambda x: x.update(a=schema.str),
                lambda x: x.pop(next(iter(x)), None) if x else None]
    makers = [
        ("schema.list(L)", lambda: [[], [schema.int], [schema.int, ...], [..., schema.str], [..., schema.int, ...]], lambda c: schema.list(c)),
        ("schema.dict(D)", lambda: [{}, {"a": schema.int}, {"a": schema.int, ...: ...}], lambda c: schema.dict(c)),
        ("from_native(L)", lambda: [[], [1], [[1], []], [{"a": []}]], lambda c: from_native(c)),
        ("from_native(D)", lambda: [{}, {"a": 1}, {"a": {}, "b": []}], lambda c: from_native(c)),
        ("schema.list % L", lambda: [[], [1], [[]], [{}]], lambda c: substitute(schema.list, c)),
        ("schema.dict % D", lambda: [{}, {"a": 1}, {"a": []}], lambda c: substitute(schema.dict, c)),
        ("schema.any % L", lambda: [[], [1, [2]]], lambda c: substitute(schema.any, c)),
        ("make_required(d, L)", lambda: [[], ["a"]], lambda c: make_required(schema.dict({optional("a"): schema.int, optional("b"): schema.int}), c)),
    ]
    for name, containers, build in makers:
        n_variants = len(containers())
        for i in range(n_variants):
            probe = containers()[i]
            for k in range(len(muts(probe))):
                c = containers()[i]
                try:
                    s = build(c)
                except Exception:
                    continue
                before = observe(s)
                try:
                    muts(c)[k](c)
                    # nested members too
                    for m in (c if isinstance(c, list) else list(c.values())):
                        if isinstance(m, list):
                            m.append(7)
                        elif isinstance(m, dict):
                            m["~deep~"] = 1
                except Exception:
                    pass
                ctx.count("directed_aliasing_probes")
                after = observe(s)
                if after != before:
                    ctx.violation("later mutation of a container that was passed in changed the schema built from it",
                                  how=name, container_after=safe_repr(c)[:200], before=safe_repr(before)[:400], after=safe_repr(after)[:400])


def directed_option_purity(ctx):
    """an operation called with OPTIONS (represent with an indent, validate with a caller's path) must not change what the
    same operation answers without them, or with other options, on the same schema object afterwards — compared with the
    answers of an independent rebuild that was never given options"""
    from d42 import represent
    from th import PathHolder
    makers = [lambda: schema.int.min(1), lambda: schema.list([schema.int, schema.str("a")]),
              lambda: schema.dict({"a": schema.list(schema.int), optional("b"): schema.dict({"c": schema.str})}),
              lambda: schema.any(schema.int, schema.dict({"k": schema.none})), lambda: schema.list(schema.dict({"x": schema.int})).len(1, 3),
              lambda: schema.str.regex("a+")]
    for mk in makers:
        for order in ((8, 0, 4, 0), (0, 8, 0), (4, 4, 0, 8)):
            try:
                s, fresh = mk(), mk()
            except Exception:  # noqa: BLE001
                continue
            ctx.count("option_purity_sequences")
            for ind in order:
                got = represent(s, indent=ind)
                want = represent(mk(), indent=ind)
                if got != want:
                    ctx.violation("represent(schema, indent=%d) answers differently after the same schema was rendered with other "
                                  "options" % ind, schema=want, got=got, order=safe_repr(order))
                    break
            if safe_repr(s) != safe_repr(fresh) or represent(s) != represent(fresh):
                ctx.violation("repr of a schema changed after it was rendered with options", schema=safe_repr(fresh), got=safe_repr(s),
                              order=safe_repr(order))
            try:
                schema_err = None
                s.len("x") if hasattr(s, "len") else s.min("x")
            except Exception as e:  # noqa: BLE001
                schema_err = str(e)
            try:
                fresh_err = None
                fresh.len("x") if hasattr(fresh, "len") else fresh.min("x")
            except Exception as e:  # noqa: BLE001
                fresh_err = str(e)
            if schema_err != fresh_err:
                ctx.violation("the message of a raising refinement depends on how the receiver was rendered before",
                              first=fresh_err, second=schema_err)
        # validate with a caller-supplied path, then without, then with another
        try:
            s = mk()
        except Exception:  # noqa: BLE001
            continue
        for v in (None, {"a": ["x"], "b": {"c": 1}}, [1, 2], "b"):
            base = [safe_repr(e) for e in validate(mk(), v).get_errors()]
            validate(s, v, path=PathHolder("body")["k"])
            again = [safe_repr(e) for e in validate(s, v).get_errors()]
            if again != base:
                ctx.violation("validate(schema, value) answers differently after a call with a caller-supplied path",
                              schema=safe_repr(mk()), value=safe_repr(v), first=base[:3], second=again[:3])


def directed_argument_collections(ctx):
    """collections the CALLER still holds, passed as arguments (keys of make_required as a set / list / tuple, operands of
    schema.any(*xs), key tables): unchanged afterwards, and the same call again gives the same result"""
    import copy
    d = schema.dict({optional("a"): schema.int, optional("b"): schema.str, "c": schema.none})
    other = schema.dict({optional("a"): schema.list, optional("z"): schema.int})
    for mk in (lambda: {"a"}, lambda: {"a", "b"}, lambda: ["a", "b"], lambda: ("a",), lambda: set(), lambda: {"a", "nope"}, lambda: ["nope", "a"]):
        ks = mk()
        before = copy.copy(ks)
        outs = []
        for target in (d, other, d):
            try:
                outs.append(("ok", observe(make_required(target, ks))))
            except Exception as e:  # noqa: BLE001
                outs.append(("raise", type(e).__name__))
            ctx.count("argument_collection_calls")
            if ks != before or type(ks) is not type(before):
                ctx.violation("make_required changed the key collection it was given", keys_before=safe_repr(before), keys_after=safe_repr(ks))
                break
        else:
            if outs[0] != outs[2]:
                ctx.violation("make_required(d, keys) gives another result when repeated with the same key collection",
                              keys=safe_repr(before), first=safe_repr(outs[0])[:300], again=safe_repr(outs[2])[:300])
    xs = [schema.int, schema.str]
    before = list(xs)
    schema.any(*xs), schema.list(xs), schema.any(schema.int)(*xs) if False else None
    if xs != before:
        ctx.violation("a declaration changed the list of schemas it was given")


def directed_generator_state(ctx):
    """generating from one schema must not change what ANOTHER schema generates: demanding schemas (repeats / lengths far above
    the defaults, huge bounds, long alphabets) faked through the public generator between two observations of ordinary ones"""
    ordinary = [lambda: schema.str.regex("a*"), lambda: schema.str.regex(r"\d+x?"), lambda: schema.str, lambda: schema.list(schema.int),
                lambda: schema.str.alphabet("ab"), lambda: schema.float.precision(3), lambda: schema.int, lambda: schema.bytes]
    demanding = [lambda: schema.str.regex(r"[0-9]{64,}"), lambda: schema.str.regex(r"(ab){40,}z*"), lambda: schema.str.len(200, ...),
                 lambda: schema.list(schema.int).len(150, ...), lambda: schema.int.min(2 ** 80), lambda: schema.float.min(1e300),
                 lambda: schema.float.min(0.5).max(2.5).precision(1), lambda: schema.str.contains("q" * 90),
                 lambda: schema.str.alphabet("z" * 50).len(70)]
    for mk_d in demanding:
        try:
            before = [observe(mk()) for mk in ordinary]
            d = mk_d()
            for pol in ("hi", "lo"):
                SR.generate_public(d, SR.make_policy(pol, None))
            fake(d)
            after = [observe(mk()) for mk in ordinary]
        except Exception as e:  # noqa: BLE001
            ctx.count("generator_state_harness_error:" + type(e).__name__)
            continue
        ctx.count("generator_state_sequences")
        for mk, b, a in zip(ordinary, before, after):
            if a != b:
                ctx.violation("generating from one schema changed what another schema generates", generated_from=safe_repr(mk_d()),
                              affected=safe_repr(mk()), before=b[3][:300], after=a[3][:300])
                return


def directed_fault_then_repeat(ctx):
    """an operation that succeeds; the same operation failing half-way on the SAME (temporarily broken) container object;
    the container repaired in place; the first operation repeated — results must agree (anything remembered about the
    unfinished call, keyed by identity or otherwise, shows up here). Also: an unrelated equal container afterwards."""
    from .. import hostile
    from ..gen_value import Opaque
    from d42 import optional
    from d42.utils import from_native, make_required

    def obs(r):
        return observe(r) if hasattr(r, "props") else safe_repr(r)
    containers = [
        (lambda: {"a": [1, 2], "b": {"c": 1}}, lambda c: c["a"], "list"),
        (lambda: {"a": [1, 2], "b": {"c": 1}}, lambda c: c["b"], "dict"),
        (lambda: [[1, 2], {"k": 1}, "x"], lambda c: c[0], "list"),
        (lambda: [[1, 2], {"k": 1}, "x"], lambda c: c[1], "dict"),
        (lambda: {"x": {"y": {"z": [1]}}}, lambda c: c["x"]["y"]["z"], "list"),
        (lambda: [[[[1]]]], lambda c: c[0][0][0], "list"),
    ]
    bads = [lambda: Opaque(), lambda: hostile.Touchy(ValueError), lambda: hostile.Touchy(KeyError), lambda: (1, 2), lambda: {1, 2},
            lambda: ...]
    ops = [
        ("from_native", lambda c: from_native(c)),
        ("schema.dict % c", lambda c: schema.dict % c),
        ("schema.list % c", lambda c: schema.list % c),
        ("schema.any % c", lambda c: schema.any % c),
        ("schema.any(schema.list, schema.dict) % c", lambda c: schema.any(schema.list, schema.dict) % c),
        ("schema.dict({...: ...}) % c", lambda c: schema.dict({...: ...}) % c),
        ("schema.list([...]) % c", lambda c: schema.list([...]) % c),
        ("validate(from-any, c)", lambda c: [safe_repr(e) for e in validate(schema.any(schema.list(schema.any), schema.dict), c).get_errors()]),
        ("schema == c", lambda c: schema.any(schema.list, schema.dict) == c),
    ]
    for opname, op in ops:
        for mk, inner, kind in containers:
            for bad in bads:
                def break_(c, inner=inner, kind=kind, bad=bad):
                    t = inner(c)
                    if kind == "list":
                        t.append(bad())
                    else:
                        t["__bad__"] = bad()

                def repair(c, inner=inner, kind=kind):
                    t = inner(c)
                    if kind == "list":
                        t.pop()
                    else:
                        del t["__bad__"]
                ctx.count("fault_then_repeat")
                try:
                    d = hostile.fault_then_repeat(op, mk, break_, repair, obs)
                except Exception as e:  # noqa: BLE001
                    ctx.count("fault_then_repeat_harness_error:" + type(e).__name__)
                    continue
                if d is not None:
                    ctx.violation("repeating an operation on the same (repaired) input after a failed attempt gives another "
                                  "result", operation=opname, container=safe_repr(mk()), **d)
    # declarations given a caller-owned container of schemas that is temporarily broken
    decls = [
        ("schema.list(c)", lambda: [schema.int, schema.str], lambda c: c.append("junk"), lambda c: c.pop(), lambda c: schema.list(c)),
        ("schema.list(c) nested", lambda: [schema.list([schema.int]), schema.str], lambda c: c.append(3), lambda c: c.pop(),
         lambda c: schema.list(c)),
        ("schema.dict(c)", lambda: {"a": schema.int, optional("b"): schema.str}, lambda c: c.__setitem__("z", 3),
         lambda c: c.__delitem__("z"), lambda c: schema.dict(c)),
        ("schema.any(*c)", lambda: [schema.int, schema.str], lambda c: c.append(3), lambda c: c.pop(), lambda c: schema.any(*c)),
        ("make_required(d, c)", lambda: ["a"], lambda c: c.append("nope"), lambda c: c.pop(),
         lambda c: make_required(schema.dict({optional("a"): schema.int, optional("b"): schema.str}), c)),
    ]
    for name, mk, br, rep, op in decls:
        ctx.count("fault_then_repeat")
        try:
            d = hostile.fault_then_repeat(op, mk, br, rep, obs)
        except Exception as e:  # noqa: BLE001
            ctx.count("fault_then_repeat_harness_error:" + type(e).__name__)
            continue
        if d is not None:
            ctx.violation("repeating an operation on the same (repaired) input after a failed attempt gives another result",
                          operation=name, container=safe_repr(mk()), **d)


def model_history(ctx, rnd, n):
    """the same kind of history through the model: the pool is append-only there by construction; compare pools"""
    g = SchemaGen(rnd, max_depth=2, customs=False)
    pool = [g.any_schema(2)[0] for _ in range(4)]
    I = encode.Interner()
    try:
        enc_pool = [encode.enc_schema(s, I) for s in pool]
    except encode.Unencodable:
        return None
    ops, real_obs = [], []
    for _ in range(n):
        c = rnd.random()
        i, j = rnd.randrange(len(pool)), rnd.randrange(len(pool))
        try:
            if c < .3:
                v = rnd.choice([1, "a", [1, 2], {"a": 1}, None, 1.5])
                ops.append(["hsubst", i, encode.enc_value(v, I)])
                try:
                    pool.append(substitute(pool[i], v))
                    real_obs.append(["stored", len(pool) - 1])
                except Exception as e:  # noqa: BLE001
                    real_obs.append(["raised", type(e).__name__])
            elif c < .5:
                ops.append(["hunion", i, j])
                pool.append(pool[i] | pool[j])
                real_obs.append(["stored", len(pool) - 1])
            elif c < .6:
                v = rnd.choice([[1, {"a": 2}], {"a": [1]}, "x", (1,)])
                ops.append(["hfromnative", encode.enc_value(v, I)])
                try:
                    pool.append(from_native(v))
                    real_obs.append(["stored", len(pool) - 1])
                except Exception as e:  # noqa: BLE001
                    real_obs.append(["raised", type(e).__name__])
            elif c < .8:
                v = rnd.choice(PROBES)
                ops.append(["hvalidate", i, encode.enc_value(v, I)])
                real_obs.append(["errors", len(validate(pool[i], v).get_errors())])
            else:
                ops.append(["heq", i, j])
                real_obs.append(["bool", 1 if pool[i] == pool[j] else 0])
        except encode.Unencodable:
            return None
    try:
        final = [encode.tostr(encode.enc_schema(s, I)) for s in pool]
    except encode.Unencodable:
        return None
    return (["history", ["pool"] + enc_pool, ["ops"] + ops, I.rxtab(["a", "ab", "x"])], final, encode.tostr(real_obs))


def run(ctx):
    from .. import extract_effects
    ok, msg = extract_effects.run()
    if not ok:
        ctx.breakage("translation", "effect extraction failed: " + msg)
    runner.prove(ctx, MODULE, THEOREMS, FILES)
    directed_aliasing(ctx)
    directed_value_purity(ctx)
    directed_lookup_purity(ctx)
    directed_path_purity(ctx)
    directed_scale_purity(ctx)
    order_independence(ctx)
    directed_fault_then_repeat(ctx)
    directed_option_purity(ctx)
    directed_generator_state(ctx)
    directed_argument_collections(ctx)
    steps = ctx.n(30, 100)
    for h in range(ctx.n(25, 80)):
        H = History(ctx)
        g = SchemaGen(ctx.rnd, max_depth=2, customs=False)
        for _ in range(3):
            H.add(g.any_schema(2)[0], "generated")
        for f in (schema.int, schema.str, schema.list, schema.dict, schema.any, schema.float):
            H.add(f, "facade")
        for n in range(steps):
            H.step(n)
            H.check_all(n)
        ctx.case((h, tuple(H.log[-5:])), True)
        ctx.count("history_steps", steps)
        ctx.count("pool_entries", len(H.pool))
        if h == 0:
            ctx.sample({"history_tail": H.log[-10:]})
    reqs, finals, obs = [], [], []
    for _ in range(ctx.n(60, 400)):
        mh = model_history(ctx, ctx.rnd, ctx.n(12, 40))
        if mh:
            reqs.append(mh[0])
            finals.append(mh[1])
            obs.append(mh[2])
    res = model.run_batch(reqs)
    bad = 0
    for r, f, o in zip(res, finals, obs):
        ctx.count("corr_histories")
        good = (not isinstance(r, str)) and r[0][1:] == f and [x if x[0] != "toks" else x for x in r[1][1:]] == o
        if not good:
            bad += 1
            if bad <= 5:
                ctx.breakage("correspondence", "the pool / observations after a history differ between model and code",
                             detail=f"real pool {sexp.dumps(f)[:500]}\nmodel {sexp.dumps(r)[:700] if not isinstance(r, str) else r}\nreal obs {o}")
    ctx.cov["corr_disagreements"] = bad


def replay(path):
    print(open(path).read()[:6000])
    return 0


MANIFEST = dict(
    category="proof",
    technique="refinement to a purely functional spec: Lean 4 theorems pool_append_only / entries_stable over the history model + "
              "history correspondence (model pool = implementation pool) + snapshot/re-observe search on the real code"
              " + effect translator (write sites extracted from the source)",
    text="The spec (D42/Model/History.lean) is a fold over public operations on an append-only pool; theorems: a step only appends, "
         "every earlier entry is unchanged after any history, a step's observation depends only on the entries it names. The "
         "implementation is checked to refine it: generated histories are run through both and the pools compared; model-free "
         "search: after every step of 30/100-step histories every pool entry is re-observed (repr, verdicts on probes, structural "
         "encoding, generated value under fixed draws) against its creation-time snapshot, arguments are deep-compared before and "
         "after, and caller-owned lists/dicts passed in earlier are mutated."
         " Source pins: the normalised text of every anchor file is compared with the text the model was last validated against; a changed file is a broken obligation (no-failing-input-found unless the search finds an input)."
         " Translator: every syntactic write of the library (Gen/Effects.lean, regenerated each run) is decided to go to an object built in the same activation or under construction, four listed exceptions aside (writes_are_local), nothing caller-owned is stored into props (stores_are_fresh); Frame.frame / frame_many: such activations leave every pre-existing cell unchanged.",
    note="The theorem is about the spec; aliasing through objects the harness never mutates (e.g. props.keys handed out to callers) "
         "cannot be exhibited — labelled partial. Trusted: Lean kernel + standard axioms, hand model (sampling tie), codec.")
