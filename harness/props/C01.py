"""C01 — generated data always validates against its own schema."""
import math

from ..common import safe_repr
from .. import conforms, gencorr, runner, scripted_random as SR, valcases
from ..common import d42  # noqa: F401
from d42 import fake, schema, substitute, validate

MODULE = "D42.Props.C01Total"
THEOREMS = ["gen_sound", "genScalar_sound", "randomStr_spec", "randomFloat_in_bounds", "gen_conforms",
            "gen_dead_alternative_counterexample", "gen_ellipsis_len_counterexample",
            "gen_total", "genScalar_total", "genSeq_total", "gen_total_example", "gen_empty_alphabet_counterexample",
            "gen_no_grid_point_counterexample"]
FILES = ["D42/Model/Data.lean", "D42/Model/Float.lean", "D42/Model/Validate.lean", "D42/Model/Gen.lean",
         "D42/Gen/Consts.lean", "D42/Spec/Conforms.lean", "D42/Props/C02.lean", "D42/Props/C09.lean", "D42/Props/C01.lean", "D42/Props/C01Total.lean"]

EVIDENCE = dict(
    level="proof",
    checker_cmd="lake build D42.Props.C01 d42model && lake env lean <#print axioms audit>",
    trusted=["Lean kernel; standard axioms",
             "D42/Gen/Consts.lean regenerated from d42/generation/_consts.py + RegexGenerator defaults on this run",
             "generator model tied to the code by (draw requests, generated value) under scripted draws incl. both ends of every range",
             "CPython: random.randint/choice/uniform contracts, uuid4() is version 4, Decimal(safe_repr(x)) round-trips"],
    rule="hereditarily satisfiable schemas built with a checked witness; each is generated from under draw policies "
         "lo/hi/alt/alt2/rnd/small and one:<k> (single-position extremes); distinct by safe_repr(schema)+policy; non-trivial = at "
         "least one random draw was consumed; thorough tier adds EVERY schema of the small scope (small grammar to depth 2, 5.2k schemas) under four draw policies")


def one_policies(n_requests, limit):
    return ["one:%d" % k for k in range(min(n_requests, limit))]


def oracle_case(ctx, s, w, pol, kind, v, log):
    nreq = sum(1 for e in log if e[0] != "seed")
    ctx.case((safe_repr(s), pol), nreq > 0)
    ctx.count("policy:" + pol.split(":")[0])
    info = dict(schema=safe_repr(s), policy=pol, draws=[e for e in log][:40], py_schema=s, witness=safe_repr(w))
    if kind == "exc":
        ctx.violation("fake raised %s on a satisfiable schema" % type(v).__name__, exception=safe_repr(v), **info)
        return
    try:
        errs = validate(s, v).get_errors()
    except Exception as e:  # noqa: BLE001
        ctx.violation("validate raised on a generated value", value=safe_repr(v), exception=safe_repr(e), **info)
        return
    if errs:
        ctx.violation("fake returned a value its own schema rejects", value=safe_repr(v), errors=[safe_repr(e) for e in errs[:4]],
                      py_value=v, **info)


def many_regex_schemas(ctx):
    """more than 200 distinct regex schemas faked in ONE process through d42.fake (whatever the generator keeps between
    patterns), each judged by its own validation"""
    import random as _random
    pats = []
    for i in range(120):
        a, b, c = chr(97 + i % 26), chr(65 + (i * 7) % 26), str(i % 10)
        pats += ["^[^%s%s%s]{2}$" % (a, b, c), "^[^%s-%s_]$" % (a, chr(min(122, ord(a) + 3))), "^%s[%s%s]%d$" % (a, b, c, i)]
    st = _random.getstate()
    try:
        _random.seed(777)
        for rnd_round in range(2):
            for p in pats:
                ctx.count("many_regex_schema_fakes")
                try:
                    s = schema.str.regex(p)
                    v = fake(s)
                except Exception:  # noqa: BLE001
                    continue
                try:
                    errs = validate(s, v).get_errors()
                except Exception as e:  # noqa: BLE001
                    errs = [e]
                if errs:
                    ctx.violation("fake returned a value its own schema rejects", schema=safe_repr(s), value=safe_repr(v),
                                  errors=[safe_repr(e) for e in errs[:3]], note="after many other regex schemas were faked in this process")
                    return
    finally:
        _random.setstate(st)


def chain_built(ctx):
    """whatever refinement chains the tree under test ACCEPTS (every ordered pair / some triples of refinements of the
    C11 universes, with and without a value first) paired with a witness found by trying a small universe of candidate
    values against the independent Conforms oracle — a chain the declaration layer should have refused shows up here as a
    satisfiable schema fake() cannot honour"""
    import itertools
    from .C11 import UNIVERSE
    cands = {"str": ["", "a", "b", "ab", "ba", "abc", "z", "zz", "aab", "abz", "{}", "a{b}", "%s", "aaa", "abcabc", "xabcx"],
             "int": [0, 1, 3, 4, 5, -1, 2 ** 63 + 1, 2 ** 64, 10 ** 30, -2 ** 70],
             "float": [0.0, 0.1, 0.15, 0.2, 0.3, 0.1 + 0.2, 1.5, 1.5 + 1e-12, 2.0, 3.14, 3.14159, 1e19, 2e19, -1e19, -2e19, 1e300],
             "list": [[], [1], [1, "a"], [1, 2], [1, 2, 3], ["a", "b", "c"], [1, "a", 2, 3, 4]]}
    out = []
    for key, u in UNIVERSE.items():
        facade = u.get("facade", key)
        for value in (u["values"][:3] + ([0.3] if facade == "float" else [])):
            combos = list(itertools.permutations(u["ops"], 2))
            if not ctx.quick():
                combos += ctx.rnd.sample(list(itertools.permutations(u["ops"], 3)), 300)
            for combo in combos:
                try:
                    s = getattr(schema, facade)
                    if value is not None:
                        s = s(value)
                    for m, a in combo:
                        s = getattr(s, m)(*a)
                except Exception:  # noqa: BLE001
                    continue
                ctx.count("chain_built_declarable")
                for w in ([value] if value is not None and not isinstance(value, list) else []) + cands[facade]:
                    try:
                        if conforms.conforms(s, w):
                            out.append((s, w))
                            break
                    except Exception:  # noqa: BLE001
                        pass
    ctx.count("chain_built_with_witness", len(out))
    return out


def run(ctx):
    from .. import extract_consts
    extract_consts.run()
    runner.prove(ctx, MODULE, THEOREMS, FILES)
    pairs = valcases.schema_batch(ctx, ctx.n(90, 700), customs=True, max_depth=ctx.n(3, 4))
    # results of substitution are schemas too
    extra = []
    for s, w in pairs[: ctx.n(30, 200)]:
        try:
            extra.append((substitute(s, w), w))
        except Exception:
            pass
    ctx.count("substituted_schemas", len(extra))
    pairs = pairs + extra
    # corpus: the recorded findings' witnesses and their neighbours run first
    nan = float("nan")
    corpus = [
        (lambda: schema.list([schema.int, ...]).len(3), [1, 2, 3]),
        (lambda: schema.list([..., schema.int]).len(1, 4), [None, 1]),
        (lambda: schema.str.alphabet(""), ""),
        (lambda: schema.any(schema.int.min(5).max(3), schema.str("x")), "x"),
        (lambda: schema.dict({"a": schema.any(schema.str.len(3, 1), schema.none)}), {"a": None}),
        (lambda: schema.float.min(-1.5e308).max(1.5e308), 0.0),
        (lambda: schema.float.min(0.11).max(0.19).precision(1), 0.15),
        (lambda: schema.float.min(0.29).max(0.31).precision(2), 0.3),
        (lambda: schema.float.min(0.15).precision(1), 0.2),
        (lambda: schema.float.max(-0.15).precision(1), -0.2),
        (lambda: schema.float.min(-0.35).max(-0.15).precision(1), -0.2),
        (lambda: schema.str.len(40, ...), "x" * 40),
        (lambda: schema.str.contains("ab").len(40, ...), "ab" + "x" * 38),
        (lambda: schema.str.alphabet("xyz").contains("zz").len(33, ...), "zz" + "x" * 31),
        (lambda: schema.str.contains("q" * 40), "q" * 40),
        (lambda: schema.str.contains("ab").len(40, 60), "ab" + "x" * 38),
        (lambda: schema.list(schema.str.contains("a").len(35, ...)).len(17, ...), ["a" * 35] * 17),
        (lambda: schema.list(schema.int).len(20, ...), [0] * 20),
        (lambda: schema.int.min(2 ** 63), 2 ** 63),
        (lambda: schema.int.max(-2 ** 63 - 1), -2 ** 63 - 1),
        (lambda: schema.float.min(1e19), 1e19),
        (lambda: schema.float.max(-1e19), -1e19),
        (lambda: schema.str.contains("abc").len(3), "abc"),
        (lambda: schema.str.contains("abc").len(..., 3), "abc"),
        (lambda: schema.str.alphabet("ab").contains("ba").len(2, 5), "ba"),
        (lambda: schema.list([..., schema.int(1), ...]), [1]),
        (lambda: schema.bytes, b""),
    ]
    built = []
    for mk, w in corpus:
        try:
            built.append((mk(), w))
        except Exception as e:  # noqa: BLE001  (a corpus entry the tree under test cannot even declare is skipped, counted)
            ctx.count("corpus_build_exception:" + type(e).__name__)
    corpus = built + valcases.scalar_corpus() + [
        (schema.uuid4, SR.FIXED_UUIDS[0]), (schema.date, SR.FIXED_TODAY), (schema.datetime, SR.FIXED_NOW)]
    many_regex_schemas(ctx)
    pairs = corpus + chain_built(ctx) + pairs
    cases = []
    for s, w in pairs:
        # a schema is only used to accuse `fake` when its witness is accepted by the real validator AND by the
        # independent Conforms oracle
        try:
            # satisfiable = the witness conforms in the sense of the INDEPENDENT oracle (harness/conforms.py, checked against
            # the real validator by C02 on the unchanged tree); the real validate is what fake's output is judged by, so it
            # must not also be the judge of whether the schema counts
            ok = conforms.conforms(s, w)
        except Exception:
            ok = False
        if not ok:
            ctx.count("schemas_without_checked_witness")
            continue
        if valcases._size(w) > 100:
            pols = ["lo", "rnd"]        # hundreds of elements: the size is the point, two passes suffice
        else:
            pols = list(SR.POLICIES)
            (k0, v0), log0 = SR.generate(s, SR.make_policy("lo", ctx.rnd))
            pols += one_policies(len(log0), ctx.n(6, 40))
        for pol in ("lo", "hi", "rnd"):
            # the PUBLIC path: d42.fake(schema) with the module-level generator as the package wires it
            (kp, vp), logp = SR.generate_public(s, SR.make_policy(pol, ctx.rnd))
            ctx.count("public_fake_cases")
            oracle_case(ctx, s, w, pol + " via d42.fake", kp, vp, logp)
        for pol in pols:
            c = gencorr.GenCase(s, pol)
            gencorr.run_real(c, ctx.rnd)
            oracle_case(ctx, s, w, pol, c.kind, c.value, c.log)
            for e in c.log:
                if e[0] == "int" and e[3] is not None:
                    if e[3] == e[1]:
                        ctx.count("draw_at_low_end")
                    if e[3] == e[2]:
                        ctx.count("draw_at_high_end")
            cases.append(c)
    # every outcome of every choice draw: schemas whose strings come from an alphabet (the regex generator's default one,
    # a declared one, the default str alphabet) are generated once per candidate index
    sweep = [(schema.str.regex(r"^id=.;$"), "id=7;"), (schema.str.regex(r"^.{3}$"), "abc"), (schema.str.regex(r"a.b"), "a-b"),
             (schema.str.regex(r"^[^x]\w\d$"), "ab1"), (schema.dict({"k": schema.list(schema.str.regex(r"^(.|ab)c$")).len(2)}), {"k": ["xc", "abc"]}),
             (schema.str.len(2), "ab"), (schema.str.alphabet("ab \n").len(3), "ab "), (schema.str.contains("x").len(3), "axb")]
    for s, w in sweep:
        try:
            if validate(s, w).has_errors() or not conforms.conforms(s, w):
                continue
        except Exception:  # noqa: BLE001
            continue
        for k in range(0, 128):
            pol = "idx:%d" % k
            c = gencorr.GenCase(s, pol)
            gencorr.run_real(c, ctx.rnd)
            oracle_case(ctx, s, w, pol, c.kind, c.value, c.log)
            if k % 16 == 0:
                cases.append(c)
    # the unpatched entry point with the real RNG as well
    for s, w in pairs[: ctx.n(40, 300)]:
        try:
            if validate(s, w).has_errors() or not conforms.conforms(s, w):
                continue
        except Exception:
            continue
        for _ in range(ctx.n(3, 10)):
            try:
                v = fake(s)
                kind = "ok"
            except Exception as e:  # noqa: BLE001
                v, kind = e, "exc"
            oracle_case(ctx, s, w, "real-rng", kind, v, [])
    dis = gencorr.compare(cases, ctx)
    for c, detail in dis[:10]:
        ctx.breakage("correspondence", "generator view (requests, value) differs between model and code",
                     schema=safe_repr(c.schema), policy=c.policy, detail=detail, request=c.req)
    ctx.cov["corr_disagreements"] = len(dis)
    if not ctx.quick():
        # thorough: every schema of the small scope under four draw policies
        from .. import smallscope

        def scope_oracle(ctx, cs):
            for c in cs:
                oracle_case(ctx, c.schema, None, c.policy, c.kind, c.value, c.log)
        smallscope.gen_scope(ctx, oracle=scope_oracle)
    for c in cases[:300:60]:
        ctx.sample({"schema": safe_repr(c.schema), "policy": c.policy, "value": safe_repr(c.value)[:300],
                    "requests": [e[:3] for e in c.log][:12]})


def replay(path):
    print(open(path).read()[:6000])
    return 0


MANIFEST = dict(
    category="proof",
    technique="Lean 4 theorems over an explicit draw stream (all outcomes of every draw) + translator for the generation "
              "constants + (requests, value) correspondence under scripted draws",
    text="The generator is modelled as a state-passing function of an explicit list of RNG answers, each range-checked, so "
         "theorems hold for every outcome of every draw including both ends. Props/C01.lean: gen_sound (whatever gen "
         "returns validates against the schema, every schema, every draw list, under the hereditary satisfiability "
         "hypothesis GenHyp), genScalar_sound, randomStr_spec, randomFloat_in_bounds; Props/C01Total.lean: gen_total / "
         "genScalar_total / genSeq_total (under GenHyp plus non-empty alphabet, a grid point between float bounds and "
         "supported regex constructs, gen returns a value for every in-range draw list). Tie: the sequence of draw "
         "requests and the generated value of model and code are compared under 6 draw policies plus single-position "
         "extremes, with the generation constants regenerated from the source; search: fake under scripted and real RNG "
         "then validate on the real code."
         " Source pins: the normalised text of every anchor file is compared with the text the model was last validated against; a changed file is a broken obligation (no-failing-input-found unless the search finds an input).",
    note="Partial: GenHyp / totality hypotheses exclude exactly the recorded findings K2 K3 K4 K5 K11 (each with a "
         "counter-example theorem or witness replay). Trusted: Lean kernel + standard axioms, hand model (sampling tie), "
         "codec, CPython RNG contracts (answers inside the requested range), re.search table (RxComplete), IEEE rounding "
         "facts EnvOK / DecOK.")
