"""C04 — substitution pins the given value into the schema."""
import math

from ..common import safe_repr
from .. import gen_value, runner, scripted_random as SR, substcorr
from ..common import d42  # noqa: F401
from niltype import Nil
from d42 import validate
from d42.declaration.types import DictSchema

MODULE = "D42.Props.C04All"
THEOREMS = ["subst_accepts", "subst_total", "subst_keeps_rest", "subst_given_required",
            "subst_pins_scalar", "subst_pins_bool_int", "subst_pins_float_precision",
            "subst_accepts_counterexample", "subst_accepts_contains_counterexample",
            "subst_accepted_carries", "subst_generated_carries", "carries_example", "subst_accepted_carries_counterexample",
            "genScalar_fixed_eq_extracted", "shortcut_everywhere",
            "substWindows_first", "substWindows_none", "substElems_refused_of_zip"]
FILES = ["D42/Model/Data.lean", "D42/Model/Validate.lean", "D42/Model/Subst.lean", "D42/Props/C14.lean", "D42/Props/C12.lean",
         "D42/Props/C05.lean", "D42/Props/C04.lean", "D42/Props/C01.lean", "D42/Props/C04Carries.lean",
         "D42/Gen/GenProg.lean", "D42/Props/GenProg.lean", "D42/Props/C04Scan.lean", "D42/Props/C04All.lean"]

EVIDENCE = dict(
    level="proof",
    checker_cmd="lake build D42.Props.C04All d42model && lake env lean <#print axioms audit>",
    trusted=["Lean kernel; standard axioms", "substitution model tied to the code by the outcome correspondence of this run"],
    rule="plain values (complete, partial dicts at any depth, perturbed) substituted into generated schemas; for each success: "
         "accept-the-value, generated values under lo/hi/rnd draws carry the value, accepted perturbations carry the value, "
         "untouched keys keep schema and optionality")


def carries(v, w):
    """w carries the substituted data v at the substituted positions"""
    if isinstance(v, bool) or isinstance(w, bool):
        return isinstance(w, (bool, int)) and isinstance(v, (bool, int)) and v == w
    if isinstance(v, float):
        return isinstance(w, float) and (v == w or math.isclose(v, w, rel_tol=1e-9) or abs(v - w) <= 0.0501)
    if isinstance(v, list):
        return isinstance(w, list) and len(v) == len(w) and all(carries(a, b) for a, b in zip(v, w))
    if isinstance(v, dict):
        return isinstance(w, dict) and all(k in w and carries(x, w[k]) for k, x in v.items())
    try:
        from .C14 import _kind
        return _kind(v) == _kind(w) and v == w
    except Exception:
        return False


def untouched_ok(s, r, v):
    """dict keys not given in v keep their schema and optionality (top level and nested)"""
    if isinstance(s, DictSchema) and isinstance(r, DictSchema) and isinstance(v, dict):
        ks, kr = s.props.get("keys"), r.props.get("keys")
        if ks is Nil or kr is Nil or (len(ks) == 1 and ... in ks):
            return True
        for k, (sub, opt) in ks.items():
            if k is Ellipsis:
                continue
            if k not in kr:
                return False
            if k not in v:
                if kr[k][1] != opt or not (kr[k][0] == sub) or safe_repr(kr[k][0]) != safe_repr(sub):
                    return False
            elif v[k] is not Ellipsis and not untouched_ok(sub, kr[k][0], v[k]):
                return False
    return True


def oracle(ctx, cases):
    for c in cases:
        plain = not gen_value.has_placeholder(c.value)     # C04: "a plain value (no ... placeholders)"
        ctx.case((safe_repr(c.schema), safe_repr(c.value)), c.kind == "ok" and plain and c.tag != "witness")
        ctx.count("tag:" + c.tag)
        if c.kind != "ok" or not plain or gen_value.has_nan(c.value):
            ctx.count("not_applicable")
            continue
        r, v, s = c.result, c.value, c.schema
        info = dict(schema=safe_repr(s), value=safe_repr(v), result=safe_repr(r), tag=c.tag, py_schema=s, py_value=v)
        try:
            conf = not validate(s, v).has_errors()
        except Exception:
            continue
        if conf:
            try:
                errs = validate(r, v).get_errors()
            except Exception as e:  # noqa: BLE001
                errs = [e]
            if errs:
                ctx.violation("S % v rejects v although v conforms to S", errors=safe_repr(errs[:3]), **info)
        for pol in ("lo", "hi", "rnd"):
            (k, g), _ = SR.generate(r, SR.make_policy(pol, ctx.rnd))
            if k == "ok" and not carries(v, g):
                ctx.violation("a value generated from S % v does not carry the substituted data", generated=safe_repr(g),
                              policy=pol, **info)
                break
        ps = gen_value.perturb(v, ctx.rnd, zoo_n=1)
        for w in gen_value.aliased_variants(v) + ctx.rnd.sample(ps, min(len(ps), ctx.n(10, 30))):
            try:
                if not validate(r, w).has_errors() and not carries(v, w):
                    ctx.violation("S % v accepts a value that does not carry the substituted data", accepted=safe_repr(w), **info)
                    break
            except Exception:
                pass
        if not untouched_ok(s, r, v):
            ctx.violation("a dict key that was not given changed its schema or optionality", **info)


def run(ctx):
    from .. import extract_generator
    ok, msg = extract_generator.run()
    if not ok:
        ctx.breakage("translation", "generator short-circuit extraction failed: " + msg)
    runner.prove(ctx, MODULE, THEOREMS, FILES)
    cases = substcorr.batch(ctx, ctx.n(90, 700), customs=False) + substcorr.open_dict_any_cases(ctx, ctx.n(150, 1500)) + substcorr.untyped_pair_cases(ctx) + substcorr.untyped_edge_cases(ctx) + substcorr.contains_scan_cases(ctx) + substcorr.untyped_zoo_cases(ctx) + substcorr.defaulting_dict_subst_cases(ctx) + substcorr.subclass_and_degenerate_cases(ctx) + substcorr.sibling_container_cases(ctx) + substcorr.relaxed_marker_position_cases(ctx) + substcorr.list_window_cases(ctx) + substcorr.float_precision_cases(ctx) + substcorr.many_errors_cases(ctx) + substcorr.list_partial_dict_cases(ctx)
    from d42 import schema
    corpus = [(schema.list([..., schema.dict({"a": schema.int, "b": schema.int}), ...]), [{"a": 1}, {"a": 1, "b": 2}]),
              (schema.list([..., schema.dict({"a": schema.int}), ...]), [{"a": 1}, {"a": 2}]),
              (schema.any(schema.dict({"a": schema.int, "b": schema.int}), schema.dict({"a": schema.int})), {"a": 1}),
              (schema.any(schema.dict({"a": schema.int, ...: ...}), schema.dict({"a": schema.int, "b": schema.int, "c": schema.int})),
               {"a": 1, "c": 2})]
    for s, v in corpus:
        cases.append(substcorr.SubCase(s, v, v, "corpus"))
    for c in cases:
        substcorr.run_real(c)
    oracle(ctx, cases)
    dis = substcorr.compare(cases, ctx)
    for c, detail in dis[:10]:
        ctx.breakage("correspondence", "substitution outcome differs between model and code",
                     schema=safe_repr(c.schema), value=safe_repr(c.value), detail=detail, request=c.req)
    ctx.cov["corr_disagreements"] = len(dis)
    for c in [c for c in cases if c.kind == "ok"][:200:40]:
        ctx.sample({"schema": safe_repr(c.schema), "value": safe_repr(c.value), "result": safe_repr(c.result)[:300]})


def replay(path):
    print(open(path).read()[:6000])
    return 0


MANIFEST = dict(
    category="proof",
    technique="Lean 4 theorems subst_accepts / subst_pins_* / subst_keeps_rest / subst_total over the substitution model + "
              "result-schema correspondence",
    text="Theorems (Props/C05.lean; Props/C04.lean is the index): for a plain value v that S accepts, S % v succeeds "
         "(subst_total) and accepts v (subst_accepts); the result pins the scalar / every listed element / every given key "
         "(subst_pins_scalar and, at every nesting depth, subst_accepted_carries / subst_generated_carries in Props/C04Carries.lean: whatever the result accepts or generates carries the value — scalars equal, lists element-wise, dicts on every key given — for every schema, the contains form included), makes given keys required (subst_given_required) and keeps schema and "
         "optionality of untouched keys (subst_keeps_rest). Tie: structural comparison of the resulting schema between "
         "model and code; search: validate / generate / perturb on S % v on the real code."
         " Source pins: the normalised text of every anchor file is compared with the text the model was last validated against; a changed file is a broken obligation (no-failing-input-found unless the search finds an input).",
    note="Partial: hypotheses NoNaN (K6), NoContains (K12: contains-form picks the first substitutable window), "
         "NoOpenDictAlt (K13: a relaxed-dict alternative is dropped) — each with a counter-example theorem replayed on the "
         "real code. Trusted: Lean kernel + standard axioms, hand model (sampling tie), codec.")
