"""C03 — every validation error is true and points at the offending sub-value."""
import datetime
import math
import re
from uuid import UUID

from ..common import safe_repr
from .. import conforms, runner, valcases, valcorr
from ..common import d42  # noqa: F401
from th import PathHolder
from d42.validation import Formatter

MODULE = "D42.Props.C03All"
THEOREMS = ["errors_located", "errors_true", "siblings_disjoint_list", "siblings_disjoint_dict", "shownPath_extends",
            "validateP_located", "validateAllP_located", "validateElemsP_located", "windowsP_located",
            "validateFieldsP_located", "validateScalar_here", "validateScalar_true", "validateP_true", "minByLen_mem",
            "errors_true_sub", "sub_accepts_of_plain", "errors_true_sub_example",
            "format_shown", "format_names_path",
            "validateScalar_eq_extracted", "listPrelude_eq_extracted", "dictPrelude_eq_extracted", "anyPrelude_eq_extracted", "validateP_list_prelude", "validateP_dict_prelude",
            "extracted_errors_located_and_true"]
FILES = ["D42/Model/Data.lean", "D42/Model/Float.lean", "D42/Model/Validate.lean", "D42/Spec/Conforms.lean",
         "D42/Props/C02.lean", "D42/Props/C03.lean", "D42/Props/C03Facts.lean", "D42/Props/C03Sub.lean", "D42/Model/Format.lean", "D42/Props/C08.lean",
         "D42/Props/C08Format.lean", "D42/Props/C03All.lean",
         "D42/Model/CheckProg.lean", "D42/Gen/ValidatorProg.lean", "D42/Props/ValidatorProg.lean"]

EVIDENCE = dict(
    level="proof",
    checker_cmd="lake build D42.Props.C03All d42model && lake env lean <#print axioms audit>",
    trusted=["Lean 4.33.0 kernel; axioms ⊆ {propext, Classical.choice, Quot.sound}",
             "model paths are immutable lists (copy-on-descend by construction); the tie to the code's PathHolder "
             "discipline is the comparison of the full error multiset (kind, path, actual, parameter) on this run's cases",
             "th.PathHolder / niltype are third-party and modelled, not verified"],
    rule="(schema, value) cases as in C02/C08 with nested containers having >=2 members at depth >=1; every real error is "
         "followed from the root with the real PathHolder operators and its fact re-evaluated in plain Python; thorough tier adds the small scope (every other schema x 121 values, plain validator with the oracle; every schema x 57 values incl. `...` for the substitution validator), full error lists")


def follow(root, path):
    cur = root
    for op in path:
        cur = op(cur)
    return cur


def same(a, b):
    if a is b:
        return True
    try:
        if isinstance(a, float) and isinstance(b, float) and a != a and b != b:
            return True
        return type(a) is type(b) and a == b
    except Exception:
        return False


def fact_holds(e, fmt):
    n = type(e).__name__
    v = e.actual_value
    if n == "TypeValidationError":
        return not isinstance(v, e.expected_type)
    if n == "ValueValidationError":
        x = e.expected_value
        if isinstance(v, float) and isinstance(x, float):
            return not (v == x)           # under any tolerance an exactly equal float never errs
        return v != x
    if n == "MinValueValidationError":
        return not (v >= e.min_value)
    if n == "MaxValueValidationError":
        return not (v <= e.max_value)
    if n == "LengthValidationError":
        return len(v) != e.length
    if n == "MinLengthValidationError":
        return len(v) < e.min_length
    if n == "MaxLengthValidationError":
        return len(v) > e.max_length
    if n == "AlphabetValidationError":
        return any(c not in e.alphabet for c in v)
    if n == "SubstrValidationError":
        return e.substr not in v
    if n == "RegexValidationError":
        return re.search(e.pattern, v) is None
    if n == "MissingElementValidationError":
        return isinstance(v, list) and not (0 <= e.index < len(v))
    if n == "ExtraElementValidationError":
        return isinstance(v, list) and 0 <= e.index < len(v)
    if n == "MissingKeyValidationError":
        return isinstance(v, dict) and e.missing_key not in v
    if n == "ExtraKeyValidationError":
        return isinstance(v, dict) and e.extra_key in v
    if n == "SchemaMismatchValidationError":
        return not any(conforms.conforms(s, v) for s in e.expected_schemas)
    if n == "InvalidUUIDVersionValidationError":
        return isinstance(v, UUID) and v.version == e.actual_version and v.version != e.expected_version
    return None


def oracle(ctx, cases):
    fmt = Formatter()
    for c in cases:
        ctx.case((safe_repr(c.schema), safe_repr(c.value)), bool(c.real))
        if c.real_exc is not None or not c.real:
            continue
        for e in c.real:
            ctx.count("errors_checked")
            depth = len(e.path)
            ctx.count("depth:%d" % min(depth, 4))
            info = dict(schema=safe_repr(c.schema), value=safe_repr(c.value), error=safe_repr(e), py_schema=c.schema, py_value=c.value)
            try:
                reached = follow(c.value, e.path)
            except Exception as ex:  # noqa: BLE001
                ctx.violation("the error's path does not exist in the value (%s)" % type(ex).__name__, **info)
                continue
            if not same(reached, e.actual_value):
                ctx.violation("following the error's path reaches a different sub-value than the error reports",
                              reached=safe_repr(reached), **info)
                continue
            try:
                ok = fact_holds(e, fmt)
            except Exception as ex:  # noqa: BLE001
                ok = None
                ctx.count("fact_eval_failed:" + type(ex).__name__)
            if ok is False:
                ctx.violation("the fact stated by the error is false of the reported sub-value", **info)
            try:
                msg = e.format(fmt)
            except Exception as ex:  # noqa: BLE001
                ctx.violation("rendering a returned error raised %s (no message names its path)" % type(ex).__name__,
                              exception=safe_repr(ex), **info)
                continue
            # rendering must not disturb the error: same message again, path still resolves to the same sub-value
            try:
                again = e.format(fmt)
                reached2 = follow(c.value, e.path)
                if again != msg or not same(reached2, e.actual_value):
                    ctx.violation("rendering an error changed it (second rendering / path differs)", first=msg, second=again, **info)
            except Exception as ex:  # noqa: BLE001
                ctx.violation("after rendering, the error's path no longer resolves (%s)" % type(ex).__name__, message=msg, **info)
            n = type(e).__name__
            shown = list(e.path)
            if n == "MissingElementValidationError":
                shown = list(PathHolder()[e.index]) if False else shown
                want = str(PathHolder(fmt.root, list(e.path))[e.index])
            elif n == "MissingKeyValidationError":
                want = str(PathHolder(fmt.root, list(e.path))[e.missing_key])
            else:
                want = str(PathHolder(fmt.root, list(e.path))) if depth > 0 else ""
            if want not in msg:
                ctx.violation("the rendered message does not name the error's path", message=msg, wanted=want, **info)


def multi_sibling_nested(v, depth=0):
    if isinstance(v, list):
        if depth >= 1 and len(v) >= 2:
            return True
        return any(multi_sibling_nested(x, depth + 1) for x in v)
    if isinstance(v, dict):
        if depth >= 1 and len(v) >= 2:
            return True
        return any(multi_sibling_nested(x, depth + 1) for x in v.values())
    return False


def run(ctx):
    from .. import extract_validator
    ok, msg = extract_validator.run()
    if not ok:
        ctx.breakage("translation", "validator extraction failed (d42/validation/_validator.py no longer consists of the "
                     "recognised idioms): " + msg)
    runner.prove(ctx, MODULE, THEOREMS, FILES)
    cases = []
    for s, w in valcases.scalar_corpus() + valcases.schema_batch(ctx, ctx.n(80, 600), customs=True):
        cases += valcases.value_cases(ctx, s, w, perturb=ctx.n(14, 40), zoo=ctx.n(2, 6), inject=ctx.n(6, 14))
    cases += valcases.list_form_value_cases(ctx)
    from .. import hostile
    cases += hostile.defaulting_dict_cases()
    cases += hostile.sentinel_value_cases()
    cases += hostile.same_name_alias_cases()
    cases += hostile.shared_object_cases()
    cases += hostile.special_key_cases()
    cases += hostile.line_break_and_odd_value_cases()
    cases += hostile.touchy_cases()
    for c in cases:
        valcorr.run_real(c)
        valcorr.prepare(c)
    ctx.count("multi_sibling_nested_cases", sum(1 for c in cases if multi_sibling_nested(c.value)))
    ctx.count("skipped_unencodable", sum(1 for c in cases if c.skip))
    oracle(ctx, cases)
    from .. import limits
    limits.identity_key_probe(ctx)

    def check(s, v, errs, label, fresh=None):
        ctx.count("revalidation_steps")
        if fresh is not None and [safe_repr(e) for e in errs] != fresh:
            ctx.violation("validating the same schema and value objects again after the value was changed in place does not "
                          "describe the value as it is now (%s)" % label, schema=safe_repr(s), value=safe_repr(v),
                          errors=[safe_repr(e) for e in errs][:4], errors_of_an_independent_copy=fresh[:4])
            return
        c = valcorr.ValCase(s, v, "revalidation")
        c.real, c.real_exc = list(errs), None
        oracle(ctx, [c])
    hostile.revalidation_sequences(check)
    dis = valcorr.compare(cases, ctx, view="errors")
    for c, detail in dis[:10]:
        ctx.breakage("correspondence", "error multiset (kind, path, actual, parameter) differs between model and code",
                     schema=safe_repr(c.schema), value=safe_repr(c.value), detail=detail, request=c.req)
    ctx.cov["corr_disagreements"] = len(dis)
    if not ctx.quick():
        # thorough: the whole small scope, both validators, full error lists (kind, path, actual, parameter) and the oracle
        from .. import smallscope
        smallscope.validate_scope(ctx, view="errors", oracle=oracle, stride=2, what="error list")
        smallscope.validate_scope(ctx, sub=True, view="errors", what="error list of the substitution validator")
    k = 0
    for c in cases:
        if c.real and k < 5 and len(c.real[0].path) >= 2:
            k += 1
            ctx.sample({"schema": safe_repr(c.schema), "value": safe_repr(c.value), "errors": [safe_repr(e) for e in c.real[:3]]})


def replay(path):
    print(open(path).read()[:6000])
    return 0


MANIFEST = dict(
    category="proof",
    technique="Lean 4 theorems errors_located / errors_true / errors_true_sub (mutual inductions, immutable paths) + "
              "error-multiset correspondence"
              " + validator translator (check programs extracted from the source, model = interpreter proved for all inputs)",
    text="Theorems: every error produced by the model validator and by the substitution validator carries a path that "
         "extends the caller's path and, followed from the root value, resolves to exactly the value the error reports "
         "(errors_located); the fact each of the 16 error kinds states is true of that value, for both validators "
         "(errors_true, errors_true_sub; 'no alternative matched' via sub_accepts_of_plain); errors of siblings carry "
         "disjoint path prefixes (siblings_disjoint_list/_dict); the path a message names extends the error's path "
         "(shownPath_extends). Tie: full error multisets (kind, path, actual, parameter) of model and code compared on "
         "generated cases; search: every real error's path is followed with the real PathHolder operators, its stated fact "
         "re-evaluated in plain Python, its message checked to contain the formatted path, rendering re-done to detect "
         "mutation."
         " Translator: the statement sequences of the scalar Validator.visit_* methods and of the container preludes are extracted from the source on every run (Gen/ValidatorProg.lean) and validateScalar_eq_extracted / listPrelude_eq_extracted / validateP_list_prelude prove the hand model equal to the interpreter on them for every input. Source pins: the normalised text of every anchor file is compared with the text the model was last validated against; a changed file is a broken obligation (no-failing-input-found unless the search finds an input).",
    note="Trusted: Lean kernel + standard axioms, hand model tied by sampling, codec, th.PathHolder (third-party) modelled "
         "as an immutable list. Message wording is not modelled (only the path it names is, and it is checked on the real "
         "code).")
