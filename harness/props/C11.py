"""C11 — constraint refinements can be declared in any order."""
import itertools

from ..common import safe_repr
from .. import declcorr, runner
from ..common import d42  # noqa: F401
from d42 import schema, validate
from d42.declaration import DeclarationError

MODULE = "D42.Props.C11"
THEOREMS = ["decl_perm", "declScalar_swap", "decl_perm_after_value", "list_len_twice_rejected", "D42.GuardedUpdate.run_perm",
            "D42.Gen.Guards.writes_guarded", "D42.Gen.Guards.conflict_symmetric", "D42.Gen.Guards.value_blocks_nothing"]
FILES = ["D42/Model/Decl.lean", "D42/Gen/Guards.lean", "D42/Props/C11.lean"]

EVIDENCE = dict(
    level="proof",
    checker_cmd="lake build D42.Props.C11 D42.Gen.Guards d42model && lake env lean <#print axioms audit>",
    trusted=["Lean kernel; standard axioms", "D42/Gen/Guards.lean regenerated from the source on this run; its `conflict_symmetric` "
             "and `writes_guarded` facts are the side conditions of the commutation theorem and are re-decided on every build"],
    rule="for int, float, str, list: every set of up to 3 distinct non-value refinements over a boundary universe, with and without a "
         "value fixed first, all permutations (exhaustive over the universe below); outcome = rejected | accepted schema",
)

NAN = float("nan")
import re as _re  # noqa: E402

UNIVERSE = {
    "int": {"values": [None, 3, 0, 10 ** 30],
            "ops": [("min", (0,)), ("min", (3,)), ("min", (5,)), ("max", (0,)), ("max", (3,)), ("max", (5,)),
                    ("min", (2 ** 63 + 1,)), ("max", (2 ** 64,)), ("min", (10 ** 30,)), ("max", (10 ** 30,)), ("max", (-2 ** 70,))]},
    "float": {"values": [None, 1.5, 0.0, 0.15, 3.14159, 0.3],
              "ops": [("min", (0.0,)), ("min", (1.5,)), ("min", (2.0,)), ("max", (0.0,)), ("max", (1.5,)), ("max", (2.0,)),
                      ("min", (0.15,)), ("min", (0.2,)), ("max", (0.1,)), ("max", (3.14,)), ("min", (3.1416,)),
                      ("precision", (1,)), ("precision", (2,)), ("precision", (0,)),
                      # beyond the generator's default range (+-2**63) and the float range
                      ("min", (1e19,)), ("max", (2e19,)), ("min", (-2e19,)), ("max", (-1e19,)), ("max", (1e300,)), ("precision", (15,)),
                      # bounds within the validator's tolerance of a value but on its wrong side (0.1 + 0.2 > 0.3)
                      ("min", (0.1 + 0.2,)), ("max", (0.3 - 6e-17,)), ("min", (1.5 + 1e-12,))]},
    "str": {"values": [None, "ab", ""],
            "ops": [("len", (2,)), ("len", (0,)), ("len", (1, ...)), ("len", (3, ...)), ("len", (..., 2)), ("len", (..., 1)),
                    ("len", (1, 3)), ("len", (0, ...)), ("len", (..., 0)), ("len", (0, 0)), ("alphabet", ("ab",)), ("alphabet", ("a",)), ("alphabet", ("",)), ("contains", ("",)), ("len", (1, 1)), ("len", (2, ...)), ("contains", ("a",)), ("contains", ("z",)),
                    ("regex", ("a",)), ("regex", ("^z",))]},
    # characters that are special to str.format / %-formatting / regex inside values, alphabets, substrings and patterns
    # (every DeclarationError message embeds the repr of the schema built so far)
    "str#special": {"facade": "str", "values": [None, "abc", "a{b}", "{}", "%s"],
                    "ops": [("alphabet", ("abc{}",)), ("alphabet", ("{0}ab%s",)), ("contains", ("zz",)), ("contains", ("{",)),
                            ("contains", ("%s",)), ("contains", ("{x}",)), ("regex", ("a{2}",)), ("regex", ("^z",)),
                            ("regex", ("^[{}%]",)), ("len", (3,)), ("len", (..., 2)), ("len", (9, ...))]},
    # objects that are ALMOST the right kind of argument: compiled patterns (str / bytes, with flags), bytes, str subclasses
    "str#almost": {"facade": "str", "values": [None, "abc", "ABC"],
                   "ops": [("regex", (_re.compile("b"),)), ("regex", (_re.compile(b"b"),)), ("regex", (_re.compile("ab", _re.I),)),
                           ("regex", (b"b",)), ("contains", (b"b",)), ("alphabet", (b"abc",)), ("len", (3,)), ("len", (1, ...)),
                           ("contains", ("b",)), ("alphabet", ("abcABC",)), ("regex", ("B",))]},
    "list": {"values": [None, [schema.int, schema.str], [schema.int, ...], schema.int],
             "ops": [("len", (2,)), ("len", (1,)), ("len", (1, ...)), ("len", (3, ...)), ("len", (..., 2)), ("len", (..., 1)),
                     ("len", (0, 5)), ("len", (0, ...)), ("len", (0,)), ("len", (..., 0)), ("len", (0, 0))]},
}


def method_key(op):
    m, a = op
    if m != "len":
        return m
    if a[0] is Ellipsis:
        return "len[max]"
    if len(a) == 1:
        return "len[len]"
    if a[1] is Ellipsis:
        return "len[min]"
    return "len[min,max]"


def outcome(facade, value, ops, observe=False):
    """observe=True: every intermediate schema is compared / printed / validated against before it is refined further —
    nothing an observation computes may travel into the schemas derived from it"""
    s = getattr(schema, facade)

    def look(x):
        if observe:
            (x == x, x != getattr(schema, facade), x == 5, repr(x), list(x.props), validate(x, None))
        return x
    try:
        look(s)
        if value is not None:
            s = look(s(value))
        for m, a in ops:
            s = look(getattr(s, m)(*a))
        return ("ok", s)
    except DeclarationError:
        return ("rejected", None)
    except Exception as e:  # noqa: BLE001
        return ("exc", type(e).__name__)


def run(ctx):
    from .. import extract_guards
    ok, msg = extract_guards.run()
    if not ok:
        ctx.breakage("translation", "guard extraction failed: " + msg)
    runner.prove(ctx, MODULE, THEOREMS, FILES)
    from .. import limits
    limits.huge_int_probe(ctx, "C11")
    cases = []
    for facade, u in UNIVERSE.items():
        facade = u.get("facade", facade)
        for value in u["values"]:
            for k in (2, 3):
                for combo in itertools.combinations(u["ops"], k):
                    # sets of distinct refinement calls; two calls of one method (two len forms, min twice) are included: every
                    # order of such a set must be rejected alike
                    perms = list(itertools.permutations(combo))
                    outs = [outcome(facade, value, p) for p in perms]
                    if k == 2:
                        # the same orders again with every intermediate schema observed before it is refined further
                        outs += [outcome(facade, value, p, observe=True) for p in perms]
                        perms = perms + perms
                    ctx.case((facade, safe_repr(value), safe_repr(combo)), True)
                    ctx.count("permutations", len(perms))
                    kinds = {o[0] for o in outs}
                    bad = None
                    if "exc" in kinds:
                        bad = "a refinement raised something other than DeclarationError"
                    elif len(kinds) > 1:
                        bad = "some orders are rejected and others accepted"
                    elif kinds == {"ok"}:
                        first = outs[0][1]
                        if not all(o[1] == first and safe_repr(o[1]) == safe_repr(first) for o in outs[1:]):
                            bad = "different orders yield different schemas"
                    if bad:
                        ctx.violation(bad, facade=facade, value=safe_repr(value), refinements=safe_repr(combo),
                                      outcomes=[(safe_repr(p), o[0], safe_repr(o[1])) for p, o in zip(perms, outs)][:6])
                    for p in perms[:2]:
                        ops = ([("call", (value,))] if value is not None else []) + list(p)
                        cases.append(declcorr.ChainCase(facade, ops))
    for c in cases:
        declcorr.run_real(c)
    dis = declcorr.compare(cases, ctx)
    for c, detail in dis[:10]:
        ctx.breakage("correspondence", "declaration outcome differs between model and code",
                     chain=f"schema.{c.facade}" + "".join(f".{m}{a!r}" for m, a in c.ops), detail=detail)
    ctx.cov["corr_disagreements"] = len(dis)
    ctx.cov["exhaustive"] = True
    ctx.sample({"facade": "str", "value": "ab", "refinements": "[('len', (..., 2)), ('regex', ('a',))]",
                "outcome": safe_repr(outcome("str", "ab", [("len", (..., 2)), ("regex", ("a",))]))})


def replay(path):
    print(open(path).read()[:6000])
    return 0


MANIFEST = dict(
    category="proof",
    technique="Lean 4 theorem run_perm (commutation of guarded updates under any permutation, any length, any parameters) with its "
              "side conditions decided on guard tables regenerated from the source + exhaustive permutation enumeration",
    text="Theorem run_perm: for a system of guarded updates (each op has a must-be-undeclared set U and a written set D with D ⊆ U, "
         "and a value-consistency check that reads only the fixed value) with symmetric conflict relation, every permutation of any "
         "list of ops gives the same outcome; the side conditions (writes_guarded, conflict_symmetric) are `decide`d on "
         "D42/Gen/Guards.lean, which is extracted from d42/declaration/types/*.py on every run — the F2 defect made exactly this "
         "`decide` fail; search: exhaustive permutations of all sets of <=3 distinct refinements over a boundary universe on the real code."
         " Source pins: the normalised text of every anchor file is compared with the text the model was last validated against; a changed file is a broken obligation (no-failing-input-found unless the search finds an input).",
    note="Trusted: Lean kernel + standard axioms, the ast extractor and its idioms. The value-consistency part of each refinement "
         "is order-independent because it only reads the fixed value (stated in Props/C11.lean).")
