"""C19 — v1-to-v2 migration rewrites imports and nothing else."""
import ast
import os
import importlib

from ..common import safe_repr
from .. import encode, model, runner, sexp
from ..common import d42  # noqa: F401
from d42.migration.migrate_v1_to_v2 import mapping, rewrite_imports

MODULE = "D42.Props.C19Splice"
THEOREMS = ["D42.Gen.Migration.mapping_importable", "D42.Gen.Migration.mapping_keeps_names",
            "D42.Gen.Migration.mapping_modules_distinct", "D42.Gen.Migration.entries_count",
            "D42.Migrate.rewrite_none", "D42.Migrate.rewrite_some", "D42.Migrate.splitLines_flatten",
            "D42.Migrate.splitLines_no_inner_newline", "D42.Migrate.replacement_binds_same_locals",
            "D42.Migrate.replacementLines_shape", "D42.Migrate.applyOne_whole_lines",
            "D42.Migrate.applyOne_preserves_prefix", "D42.Migrate.applyOne_preserves_suffix",
            "D42.Migrate.rewrite_splice", "D42.Migrate.rewriteImports_splice", "D42.Migrate.spans_ordered",
            "D42.Migrate.repsOK_example"]
FILES = ["D42/Model/Migrate.lean", "D42/Gen/Migration.lean", "D42/Props/C19.lean", "D42/Props/C19Splice.lean"]

EVIDENCE = dict(
    level="proof",
    checker_cmd="lake build D42.Props.C19Splice D42.Gen.Migration d42model && lake env lean <#print axioms audit>",
    trusted=["Lean kernel; standard axioms", "D42/Gen/Migration.lean regenerated on this run from the mapping in the source and from "
             "importing every target module of the current tree", "Python's parser supplies statement spans (external function)",
             "rewrite model tied to the code by comparing the output text on this run's modules"],
    rule="modules assembled from import forms (single/multi-line, parenthesised, aliased, star, relative, mixed mapped/unmapped "
         "names, all mapped names) interleaved with other statements, several statements per physical line, comments, docstrings, "
         "form feeds, missing trailing newline; non-trivial = at least one mapped import")

OTHER = ["x = 1", "def f():\n    return 2", "import os", "import sys, json as j", "y = '''multi\nline\n'''", "# just a comment",
         '"""docstring"""', "if x:\n    from district42 import schema as inner\n", "z = (1,\n     2)", "class C:\n    a = 1",
         "from . import sibling", "from .pkg import thing as t", "from os import path", "from os.path import (join,\n    split)",
         "print('from district42 import schema')", "é = 'ü'", "w = 1  # from valera import validate"]


def all_names():
    return [(m, n) for m, names in mapping.items() for n in names]


def gen_import(rnd):
    names = all_names()
    mod = rnd.choice(list(mapping))
    pool = list(mapping[mod]) + ["unmapped_name", "other_thing"]
    k = rnd.randint(1, 4)
    picked = rnd.sample(pool, min(k, len(pool)))
    parts = []
    used_locals = set()
    for n in picked:
        a = None
        if rnd.random() < .3:
            a = rnd.choice(["alias1", "alias2", "_x", n + "_"])
        local = a or n
        if local in used_locals:
            continue
        used_locals.add(local)
        parts.append(n if a is None else f"{n} as {a}")
    if rnd.random() < .15 and picked:
        # the same name again under another local name
        n = rnd.choice(picked)
        extra = rnd.choice(["again_" + n, "_" + n + "2"])
        if extra not in used_locals:
            parts.insert(rnd.randint(0, len(parts)), f"{n} as {extra}")
            used_locals.add(extra)
    style = rnd.random()
    if rnd.random() < .12:
        # a RELATIVE import whose module path spells a v1 package: not an import of a v1 name, must be left alone
        mod = rnd.choice([".", ".."]) + mod
    if style < .5 or len(parts) == 1:
        return f"from {mod} import " + ", ".join(parts)
    if style < .8:
        return f"from {mod} import (" + ",\n    ".join(parts) + (",\n)" if rnd.random() < .5 else ")")
    return f"from {mod} import " + ", \\\n    ".join(parts)


def related_modules(mod):
    """modules that are NOT `mod` but look related to it: sub-packages, ancestors, siblings, look-alikes"""
    out = [mod + ".sub", mod + ".types", mod + ".errors", mod + ".validator", mod + "x", mod[:-1], mod.upper(), "x" + mod, mod + ".",
           "pkg." + mod]
    if "." in mod:
        parent = mod.rsplit(".", 1)[0]
        out += [parent, parent + ".other", parent.split(".")[0]]
    return [m for m in out if m and not m.endswith(".") and m.replace(".", "").isidentifier()]


def related_module_sources():
    """directed, every run: for every mapped (module, name) an import of that NAME from each related module (the pair is
    mapped only if the mapping lists it for exactly that module), alone and next to a genuinely mapped import"""
    out = []
    for mod, names in mapping.items():
        some = list(names)[:3] + list(names)[-1:]
        for rel in related_modules(mod):
            for n in some:
                out.append(f"from {rel} import {n}\n")
                out.append(f"from {rel} import {n} as local_{n}, unmapped_name\nfrom {mod} import {n}\nx = {n}\n")
    return out


def cookie_sources():
    """directed, every run: sources (str) whose first or second line is a comment that LOOKS like a coding declaration — for
    utf-8, for other codecs, for a codec that does not exist, by accident ("# Hard-coding: none") — with non-ASCII text before,
    on and after the lines of the imports. rewrite_imports works on text that is already decoded: the comment is a comment."""
    heads = ["# -*- coding: utf-8 -*-\n", "# -*- coding: latin-1 -*-\n", "# coding=cp1252\n", "#!/usr/bin/env python\n# -*- coding: koi8-r -*-\n",
             "# vim: set fileencoding=no-such-codec :\n", "# Hard-coding: none of this is configurable\n", "\n# coding: ascii\n",
             "# -*- coding: utf-16 -*-\n"]
    bodies = ["from district42 import schema\n", "GREETING = 'h\u00e9llo'; from district42 import schema\nx = 1\n",
              "name = '\u041d\u0438\u043d\u0430'\nfrom district42 import schema, unmapped_name\ny = '\u2603'\n",
              "s = '\u00fc'; from valera import validate as v  # \u00e9\nfrom district42.types import optional\n",
              "from district42 import (schema,  # \u00df\n    unmapped_name)\nz = '\U0001f600'\n"]
    return [h + b for h in heads for b in bodies]


def gen_module(rnd):
    n = rnd.randint(1, 7)
    stmts = []
    has_mapped = False
    for _ in range(n):
        c = rnd.random()
        if c < .45:
            stmts.append(gen_import(rnd))
            has_mapped = True
        elif c < .5:
            stmts.append("from district42 import *")
        else:
            stmts.append(rnd.choice(OTHER))
    lines = []
    i = 0
    while i < len(stmts):
        s = stmts[i]
        simple = "\n" not in s and not s.startswith(("#", "def", "class", "if"))
        if simple and i + 1 < len(stmts) and rnd.random() < .25:
            t = stmts[i + 1]
            if not t.startswith(("#", "def", "class", "if", '"""')) and (("\n" not in t) or t.startswith("from")):
                lines.append(s + rnd.choice(["; ", ";", " ; "]) + t + (rnd.choice(["", ";", "  # trailing"]) if "\n" not in t else ""))
                i += 2
                continue
        if simple and rnd.random() < .15:
            s = s + rnd.choice(["  # comment", ";", "   "])
        lines.append(s)
        i += 1
    src = "\n".join(lines)
    if rnd.random() < .1:
        src = src.replace("\n", "\n\x0c\n", 1)
    if rnd.random() < .8:
        src += "\n"
    return src, has_mapped


def imports_of(tree):
    """bound-name table of every top-level from-import: local name -> (module, name)"""
    out = []
    for node in tree.body:
        if isinstance(node, ast.ImportFrom):
            for a in node.names:
                out.append((a.asname or a.name, node.module, a.name, node.level))
    return out


def expected_imports(tree):
    out = []
    for node in tree.body:
        if isinstance(node, ast.ImportFrom):
            for a in node.names:
                if node.level == 0 and node.module in mapping and a.name in mapping[node.module]:
                    m, n = mapping[node.module][a.name]
                    out.append((a.asname or a.name, m, n, 0))
                else:
                    out.append((a.asname or a.name, node.module, a.name, node.level))
    return out


def enc_module(src):
    tree = ast.parse(src)
    stmts = ["stmts"]
    for node in tree.body:
        if isinstance(node, ast.ImportFrom):
            kind = ["from", encode.enc_bytes(node.module.encode()) if node.module is not None else "_", node.level] + [
                ["alias", encode.enc_bytes(a.name.encode()), encode.enc_bytes(a.asname.encode()) if a.asname else "_"]
                for a in node.names]
        else:
            kind = "other"
        stmts.append(["stmt", node.lineno, node.end_lineno, node.col_offset, node.end_col_offset, kind])
    return ["migrate", encode.enc_bytes(src.encode()), stmts]


def file_level(ctx):
    """the file / directory entry points (process_file, migrate_v1_to_v2): modules on disk in several encodings and line-end
    conventions; afterwards every file is either byte-for-byte what it was, or — decoded the way Python itself decodes
    it (BOM / coding cookie) — a valid module with the other statements unchanged and the imports bound as expected"""
    import contextlib
    import io
    import shutil
    import tempfile
    from d42.migration.migrate_v1_to_v2 import migrate_v1_to_v2
    body = ("from district42 import schema\nfrom valera import validate, unmapped_name as u\n"
            "NAME = 'caf\u00e9 \u00fc'  # comment \u00e9\n\ndef f():\n    return 'Sch\u00e9mas'\n")
    ident = "from district42 import schema\ncaf\u00e9 = 1\nprint(caf\u00e9)\n"
    files = {
        "plain_utf8.py": body.encode("utf-8"),
        "ascii.py": b"import os\nfrom district42 import schema as s\nx = 1\n",
        "crlf.py": body.replace("\n", "\r\n").encode("utf-8"),
        "no_newline_at_end.py": b"from valera import validate",
        "bom_utf8.py": b"\xef\xbb\xbf" + body.encode("utf-8"),
        "cookie_utf8.py": b"# -*- coding: utf-8 -*-\n" + body.encode("utf-8"),
        "cookie_latin1.py": b"# -*- coding: latin-1 -*-\n" + body.encode("latin-1"),
        "cookie_latin1_ident.py": b"# coding: iso-8859-1\n" + ident.encode("latin-1"),
        "cookie_cp1251.py": "# coding: cp1251\nfrom district42 import schema\nS = '\u043f\u0440\u0438\u0432\u0435\u0442'\n".encode("cp1251"),
        "nothing_to_do.py": "x = 'caf\u00e9'\n".encode("utf-8"),
        "pkg/__init__.py": b"from .valera import validate\nfrom revolt import substitute\n",
        "pkg/deep/mod.py": b"from district42.types import IntSchema, StrSchema as S\ny = 2\n",
        ".hidden/skipped.py": b"from district42 import schema\n",
        "__pycache__/skipped.py": b"from district42 import schema\n",
        "not_python.txt": b"from district42 import schema\n",
    }
    for _ in range(ctx.n(25, 200)):
        src, _m = gen_module(ctx.rnd)
        try:
            ast.parse(src)
        except SyntaxError:
            continue
        enc = ctx.rnd.choice(["utf-8", "utf-8", "latin-1", "utf-16-cookie-less-skip"])
        if enc == "latin-1":
            try:
                files["gen_%d_latin1.py" % len(files)] = b"# -*- coding: latin-1 -*-\n" + src.encode("latin-1")
            except UnicodeEncodeError:
                pass
        elif enc == "utf-8":
            files["gen_%d.py" % len(files)] = src.encode("utf-8")
    root = tempfile.mkdtemp(prefix="d42-c19-")
    try:
        for rel, data in files.items():
            path = os.path.join(root, rel)
            os.makedirs(os.path.dirname(path), exist_ok=True)
            with open(path, "wb") as f:
                f.write(data)
        buf = io.StringIO()
        try:
            with contextlib.redirect_stdout(buf):
                migrate_v1_to_v2(root)
        except Exception as e:  # noqa: BLE001
            ctx.violation("migrate_v1_to_v2 raised " + type(e).__name__, exception=safe_repr(e))
        # the command-line entry point (d42/_main.py: `d42 v1-to-v2 <dir>`) on a second copy must leave the same bytes
        import subprocess
        import sys
        root2 = tempfile.mkdtemp(prefix="d42-c19-cli-")
        try:
            for rel, data in files.items():
                path = os.path.join(root2, rel)
                os.makedirs(os.path.dirname(path), exist_ok=True)
                with open(path, "wb") as f:
                    f.write(data)
            from ..common import REPO
            env = dict(os.environ, PYTHONPATH=REPO + os.pathsep + os.environ.get("PYTHONPATH", ""), PYTHONDONTWRITEBYTECODE="1")
            p = subprocess.run([sys.executable, "-m", "d42", "v1-to-v2", root2], env=env, stdout=subprocess.PIPE,
                               stderr=subprocess.PIPE, timeout=300)
            if p.returncode != 0:
                ctx.violation("the command line `d42 v1-to-v2 <dir>` failed", stderr=p.stderr.decode()[-800:])
            else:
                for rel in files:
                    with open(os.path.join(root, rel), "rb") as f1, open(os.path.join(root2, rel), "rb") as f2:
                        ctx.count("cli_files_compared")
                        if f1.read() != f2.read():
                            ctx.violation("the command line and migrate_v1_to_v2() leave different files", file=rel)
            p = subprocess.run([sys.executable, "-m", "d42", "v1-to-v2", os.path.join(root2, "no-such-dir")], env=env,
                               stdout=subprocess.PIPE, stderr=subprocess.PIPE, timeout=300)
            if p.returncode != 0 or b"not a valid directory" not in p.stdout:
                ctx.violation("the command line does not report a missing directory", stdout=p.stdout.decode()[-400:],
                              stderr=p.stderr.decode()[-400:])
        finally:
            shutil.rmtree(root2, ignore_errors=True)
        for rel, data in files.items():
            ctx.count("file_level_files")
            with open(os.path.join(root, rel), "rb") as f:
                out = f.read()
            if out == data:
                ctx.count("file_level_unchanged")
                continue
            info = dict(file=rel, before=data.decode("latin-1")[:400], after=out.decode("latin-1")[:400])
            if rel.startswith((".hidden", "__pycache__")) or not rel.endswith(".py"):
                ctx.violation("a file the migration must skip was rewritten", **info)
                continue
            try:
                before, after = ast.parse(data), ast.parse(out)       # bytes: Python's own decoding rules
                compile(out, rel, "exec")
            except (SyntaxError, ValueError) as e:
                ctx.violation("a migrated file is not valid Python any more", error=str(e), **info)
                continue
            ctx.count("file_level_rewritten")
            ob = [ast.dump(nd) for nd in before.body if not isinstance(nd, ast.ImportFrom)]
            oa = [ast.dump(nd) for nd in after.body if not isinstance(nd, ast.ImportFrom)]
            if ob != oa:
                ctx.violation("a non-import statement of a migrated file was changed, lost or reordered", **info)
            elif sorted(expected_imports(before)) != sorted(imports_of(after)):
                ctx.violation("imports of a migrated file do not bind the same local names to the v2 counterparts", **info)
    finally:
        shutil.rmtree(root, ignore_errors=True)


def _is_space(c):
    return c in (32, 9, 10, 13, 11, 12)


def reps_ok(src):
    """RepsOK of Props/C19Splice.lean evaluated on what CPython's parser reports for `src` (the hypothesis of
    rewrite_splice): coordinates inside the text; consecutive import statements on later lines, or on the same line
    separated by blanks and a `;` with non-blank text before the second."""
    import io
    lines = [ln.encode() for ln in io.StringIO(src, newline="").readlines()]
    reps = [nd for nd in ast.parse(src).body if isinstance(nd, ast.ImportFrom) and nd.level == 0]

    def line(i):
        return lines[i - 1] if 1 <= i <= len(lines) else b""
    for st in reps:
        if not (1 <= st.lineno <= st.end_lineno <= len(lines) and st.col_offset <= len(line(st.lineno))
                and st.end_col_offset <= len(line(st.end_lineno))
                and (st.lineno != st.end_lineno or st.col_offset <= st.end_col_offset)):
            return False
    for i, a in enumerate(reps):
        for b in reps[i + 1:]:
            if a.end_lineno < b.lineno:
                continue
            if a.end_lineno != b.lineno:
                return False
            ln = line(a.end_lineno)
            k = a.end_col_offset
            while k < len(ln) and _is_space(ln[k]):
                k += 1
            if not (k < b.col_offset and k < len(ln) and ln[k] == 59):
                return False
            if not line(b.lineno)[:b.col_offset].strip(b" \t\n\r\x0b\x0c"):
                return False
    return True


def run(ctx):
    from .. import extract_migration
    extract_migration.run()
    runner.prove(ctx, MODULE, THEOREMS, FILES)
    file_level(ctx)
    # part 1 on the real code as well: every target importable, same name
    for old_mod, names in mapping.items():
        for n, (new_mod, new_name) in names.items():
            ctx.count("mapping_entries")
            try:
                m = importlib.import_module(new_mod)
                if not hasattr(m, new_name):
                    ctx.violation("a migration target is not importable", old=f"{old_mod}.{n}", new=f"{new_mod}.{new_name}")
            except Exception as e:  # noqa: BLE001
                ctx.violation("a migration target module cannot be imported", new=new_mod, exception=safe_repr(e))
            if new_name != n:
                ctx.violation("a mapped name changes (the import would bind a different local name)", old=n, new=new_name)
    reqs, exp, info = [], [], []
    n_mod = ctx.n(1500, 15000)
    directed = related_module_sources() + cookie_sources()
    ctx.count("related_module_sources", len(directed))
    n_mod += len(directed)
    k = 0
    while k < n_mod:
        if directed:
            src, has_mapped = directed.pop(), True
        else:
            src, has_mapped = gen_module(ctx.rnd)
        try:
            before = ast.parse(src)
        except SyntaxError:
            continue
        k += 1
        ctx.case(src, has_mapped)
        try:
            out = rewrite_imports(src, mapping)
        except Exception as e:  # noqa: BLE001
            ctx.violation("rewrite_imports raised " + type(e).__name__, source=src, exception=safe_repr(e))
            continue
        has_abs_from = any(isinstance(nd, ast.ImportFrom) and nd.level == 0 for nd in before.body)
        if out is None:
            ctx.count("nothing_to_do")
            if any(isinstance(nd, ast.ImportFrom) and nd.level == 0 and nd.module in mapping
                   and any(a.name in mapping[nd.module] for a in nd.names) for nd in before.body):
                ctx.violation("rewrite reports nothing to do although a mapped v1 import is present", source=src)
        else:
            try:
                after = ast.parse(out)
                compile(out, "<migrated>", "exec")
            except SyntaxError as e:
                ctx.violation("the rewritten module is not valid Python", source=src, output=out, error=str(e))
                after = None
            if after is not None:
                others_b = [ast.dump(nd) for nd in before.body if not isinstance(nd, ast.ImportFrom)]
                others_a = [ast.dump(nd) for nd in after.body if not isinstance(nd, ast.ImportFrom)]
                if others_b != others_a:
                    ctx.violation("a non-import statement was changed, lost or reordered", source=src, output=out)
                want = expected_imports(before)
                got = imports_of(after)
                # binding order matters only per local name; compare as ordered lists of (local -> target) per name
                if sorted(want) != sorted(got):
                    ctx.violation("imports after the rewrite do not bind the same local names to the v2 counterparts",
                                  source=src, output=out, expected=safe_repr(sorted(want)), got=safe_repr(sorted(got)))
        try:
            ctx.count("splice_hypothesis_RepsOK_" + str(reps_ok(src)).lower())
        except Exception:  # noqa: BLE001
            ctx.count("splice_hypothesis_RepsOK_error")
        try:
            reqs.append(enc_module(src))
            exp.append("none" if out is None else ["some", encode.tostr(encode.enc_bytes(out.encode()))])
            info.append(src)
        except Exception:
            pass
    res = model.run_batch(reqs)
    bad = 0
    for r, e, src in zip(res, exp, info):
        ctx.count("corr_cases")
        if r != e:
            bad += 1
            if bad <= 10:
                def txt(x):
                    return x if isinstance(x, str) else bytes(int(c) for c in x[1][1:]).decode(errors="replace")
                ctx.breakage("correspondence", "rewritten text differs between model and code", source=src,
                             detail=f"real:\n{txt(e)[:600]}\nmodel:\n{txt(r)[:600]}")
    ctx.cov["corr_disagreements"] = bad
    ctx.sample({"module": info[0] if info else ""})


def replay(path):
    print(open(path).read()[:6000])
    return 0


MANIFEST = dict(
    category="proof",
    technique="finite-table proof by `decide +kernel` over the mapping regenerated from the source (every target importable, names "
              "preserved) + Lean theorems about the splice model + output-text correspondence + AST-comparison search",
    text="Part 1 is a proof over the whole (finite) mapping table extracted from the current source together with the names each "
         "target module exports in the current tree: mapping_importable, mapping_keeps_names. Part 2 (Props/C19.lean, "
         "Props/C19Splice.lean): rewrite_none / rewrite_some (nothing to do iff there is no top-level absolute from-import), "
         "replacement_binds_same_locals (the replacement lines bind the same local names, mapped ones to their v2 target, unmapped "
         "ones to the original module), and rewrite_splice / rewriteImports_splice: for any number of import statements, owning "
         "their physical lines or sharing them with other statements, the output is the source with exactly the import spans "
         "replaced and every byte between them copied unchanged and in order (spans_ordered: the spans are disjoint and ordered). "
         "The hypothesis RepsOK (what the parser reports: coordinates inside the text, `;` between statements on one line) is "
         "evaluated on CPython's real ast output for every generated module (evidence: splice_hypothesis_RepsOK_*). Tie: "
         "byte-exact output of model and code on generated modules; search: AST of non-import statements unchanged and in order, "
         "bound-name table of imports as expected, output compiles — on the real code."
         " Source pins: the normalised text of every anchor file is compared with the text the model was last validated against; a changed file is a broken obligation (no-failing-input-found unless the search finds an input).",
    note="Modelled, not verified: Python's parser (supplies statement spans), file I/O, directory walking. Trusted: Lean kernel + "
         "standard axioms, translator (importing target modules), hand model (sampling tie).")
