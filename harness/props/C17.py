"""C17 — seeded generation is reproducible (same process, fresh interpreters, any hash randomisation)."""
import json
import os
import subprocess
import sys

from ..common import safe_repr
from .. import gencorr, runner, valcases
from ..common import REPO, VERIF

MODULE = "D42.Props.C17All"
THEOREMS = ["gen_no_lookahead", "gen_log_independent", "genMany_no_lookahead", "gen_prefix_determined",
            "entropy_sources_listed", "k1_site_present"]
FILES = ["D42/Model/Gen.lean", "D42/Props/C17.lean",
         "D42/Gen/Entropy.lean", "D42/Props/C17Entropy.lean", "D42/Props/C17All.lean"]

EVIDENCE = dict(
    level="proof",
    checker_cmd="lake build D42.Props.C17All d42model && lake env lean <#print axioms audit>",
    trusted=["Lean kernel; standard axioms", "CPython: the Mersenne Twister is a function of the seed and the request sequence",
             "the model generator is a function of (schemas, draw answers) by construction; what decides C17 is that the code is that "
             "function in every interpreter configuration: cross-process runs under several PYTHONHASHSEED values"],
    rule="sequences of generated schemas (no unfixed uuid4/datetime/date) faked after set_seed(k) for k in {0, 7, 123456789, 'seed', 3.5, b'd42-seed', bytearray, -5, 2**70, ''}, "
         "twice per process, in fresh interpreters with PYTHONHASHSEED in {0,1,2,3} (quick) / 8 values (thorough)")


class WorkerLibraryError(Exception):
    """the worker interpreter died of an exception raised inside the library under test"""


def worker(hashseed, harness_seed, n, with_neg):
    env = dict(os.environ, PYTHONHASHSEED=str(hashseed), D42_REPO=REPO, PYTHONDONTWRITEBYTECODE="1")
    p = subprocess.run([sys.executable, os.path.join(VERIF, "harness", "c17_worker.py"), VERIF, str(harness_seed), str(n),
                        str(with_neg) if with_neg in (2, 3, 4, 5, 6) else ("1" if with_neg else "0")], env=env, stdout=subprocess.PIPE, stderr=subprocess.PIPE, timeout=600)
    if p.returncode != 0:
        err = p.stderr.decode()[-3000:]
        if os.path.join(REPO, "d42") in err.split("Traceback")[-1].split("File ")[-1]:
            raise WorkerLibraryError(err)
        raise RuntimeError("worker failed: " + err[-1500:])
    return json.loads(p.stdout.decode())


def compare(ctx, outs, negated):
    ref_hs, ref = outs[0]
    for hs, o in outs:
        if o["schemas"] != ref["schemas"]:
            ctx.notes.append("schema sequences differ across workers (harness defect) — comparison skipped")
            ctx.count("harness_nondeterminism")
            return
    for k, seqs in ref["runs"].items():
        for i, s in enumerate(ref["schemas"]):
            ctx.case((s, k, negated), True)
    for hs, o in outs:
        for k, seqs in o["runs"].items():
            if seqs[0] != seqs[1]:
                j = next(i for i in range(len(seqs[0])) if seqs[0][i] != seqs[1][i])
                ctx.violation("repeating the seeded sequence in the same process gives different values", seed=k,
                              hashseed=hs, schema=o["schemas"][j], first=seqs[0][j], second=seqs[1][j], negated_class=negated)
            if seqs[0] != ref["runs"][k][0]:
                a, b = seqs[0], ref["runs"][k][0]
                j = next(i for i in range(len(a)) if a[i] != b[i])
                ctx.violation("a fresh interpreter with a different PYTHONHASHSEED produces different values for the same seed",
                              seed=k, hashseeds=[ref_hs, hs], schema=o["schemas"][j], values=[b[j], a[j]],
                              negated_class=negated)


def run(ctx):
    try:
        _run(ctx)
    except WorkerLibraryError as e:
        ctx.breakage("correspondence", "a worker interpreter died of an exception raised inside the library while faking the "
                     "seeded sequences", traceback=str(e)[-2500:])


def _run(ctx):
    from .. import extract_entropy
    ok, msg = extract_entropy.run()
    if not ok:
        ctx.breakage("translation", "entropy-source extraction failed: " + msg)
    runner.prove(ctx, MODULE, THEOREMS, FILES)
    hashseeds = [0, 1, 2, 3] if ctx.quick() else [0, 1, 2, 3, 4, 5, 6, 7]
    n = ctx.n(60, 400)
    hseed = ctx.seed * 7919 + 17
    outs = [(hs, worker(hs, hseed, n, False)) for hs in hashseeds]
    compare(ctx, outs, False)
    ctx.cov["interpreters"] = len(hashseeds)
    ctx.cov["schemas_per_sequence"] = n
    # the recorded finding's family, kept separate so that anything else is still reported
    outs_neg = [(hs, worker(hs, hseed, 3, True)) for hs in hashseeds[:3]]
    compare(ctx, outs_neg, True)
    outs_nan = [(hs, worker(hs, hseed, 3, 2)) for hs in hashseeds[:3]]
    compare(ctx, outs_nan, False)
    # the same schemas faked in an interpreter that first declared a zoo of bystander schemas, and in one that did not
    withb, without = worker(hashseeds[0], hseed, 4, 5), worker(hashseeds[0], hseed, 4, 6)
    for k, seqs in withb["runs"].items():
        ctx.case(("bystanders", k), True)
        other = without["runs"].get(k)
        if other is None or seqs[0] != other[0]:
            j = next((i for i in range(len(seqs[0])) if other is None or seqs[0][i] != other[0][i]), 0)
            ctx.violation("the values after set_seed(k) depend on which other schemas the process DECLARED (never faked) before",
                          seed=k, schema=withb["schemas"][j], with_bystanders=seqs[0][j], without=(other or [[None] * (j + 1)])[0][j],
                          negated_class=False)
            break
    # seeds equal under == (−3 / −3.0, 1 / True / 1.0, "1" / b"1" …) used in one order here and in the opposite order there
    fwd, rev = worker(hashseeds[0], hseed, 4, 3), worker(hashseeds[1], hseed, 4, 4)
    for k, seqs in fwd["runs"].items():
        ctx.case(("eq-seeds", k), True)
        other = rev["runs"].get(k)
        if other is None or seqs[0] != other[0] or seqs[0] != seqs[1] or other[0] != other[1]:
            ctx.violation("the values after set_seed(k) depend on which other seeds the process used before", seed=k,
                          forward_order=seqs[0][:3], reverse_order=(other or [None])[0][:3] if other else None,
                          schema=fwd["schemas"][0], negated_class=False)
            break
    # the model side: same schemas, same draws => same requests and value (tie of `gen` to the code)
    cases = []
    for s, w in valcases.schema_batch(ctx, ctx.n(40, 300), clock=False):
        for pol in ("rnd", "lo"):
            c = gencorr.GenCase(s, pol)
            gencorr.run_real(c, ctx.rnd)
            cases.append(c)
    dis = gencorr.compare(cases, ctx)
    for c, detail in dis[:10]:
        ctx.breakage("correspondence", "generator view (requests, value) differs between model and code",
                     schema=safe_repr(c.schema), policy=c.policy, detail=detail)
    ctx.cov["corr_disagreements"] = len(dis)
    ctx.sample({"schemas": outs[0][1]["schemas"][:3], "values_seed_7": outs[0][1]["runs"]["7"][0][:3]})


def replay(path):
    print(open(path).read()[:6000])
    return 0


MANIFEST = dict(
    category="proof",
    technique="thin Lean 4 theorem (the generator's requests and value are a function of schemas and earlier answers) + "
              "cross-process differential runs under several PYTHONHASHSEED values"
              " + entropy-source translator",
    text="In the model generation is a function of the schemas and the draw answers: gen_no_lookahead (answers are read "
         "left to right, a result depends only on the answers consumed), gen_log_independent (the request log is a "
         "by-product), genMany_no_lookahead and gen_prefix_determined for sequences of fakes; with 'the Mersenne Twister "
         "is a function of seed and request sequence' (trusted) that is the property. What decides C17 for the code is run "
         "every time: the same schema sequences are faked after set_seed(k) — int, str, bytes seeds — in fresh "
         "interpreters with 4 (quick) / 8 (thorough) hash seeds and twice within a process, and compared."
         " Source pins: the normalised text of every anchor file is compared with the text the model was last validated against; a changed file is a broken obligation (no-failing-input-found unless the search finds an input)."
         " Translator: every call of the random module, other generator, clock / uuid read, hash / id and ordered use of a set in the source (Gen/Entropy.lean) is decided to be one of the listed ones (entropy_sources_listed; K1's site is k1_site_present).",
    note="Partial: NoNegClass (K1: candidates of a negated class are ordered by set iteration, i.e. by PYTHONHASHSEED). The "
         "theorem is thin by nature; the runtime behaviour (hash randomisation) cannot be exhibited by the model.")
