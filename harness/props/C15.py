"""C15 — schema equality is structural; schema == value means the value validates."""
from ..common import safe_repr
from .. import conforms, encode, gen_value, model, rebuild, runner, valcases
from ..common import d42  # noqa: F401
from niltype import Nil
import datetime as _dt

from d42 import optional, schema, validate
from d42.declaration.types import (AnySchema, DictSchema, FloatSchema, IntSchema, ListSchema, StrSchema)

MODULE = "D42.Props.C15Verdicts"
THEOREMS = ["pyEq_refl", "pyEq_symm", "pyEqValue_iff", "scalarEq_same_meaning", "pyEq_discriminates_int", "pyEq_dict_flags",
            "pyEq_nan_counterexample", "pyEq_universal_counterexample", "pyEq_same_verdicts", "pyEq_same_validation",
            "pyEq_trans", "pyEq_trans_strong", "sameShape_refl", "pyEq_same_verdicts_nonvacuous"]
FILES = ["D42/Model/Data.lean", "D42/Model/Validate.lean", "D42/Model/Eq.lean", "D42/Spec/Conforms.lean", "D42/Props/C02.lean", "D42/Props/C13.lean", "D42/Props/C15.lean", "D42/Props/C15Verdicts.lean"]

EVIDENCE = dict(
    level="proof",
    checker_cmd="lake build D42.Props.C15 d42model && lake env lean <#print axioms audit>",
    trusted=["Lean kernel; standard axioms", "equality model (Props.__eq__ incl. its fall-through into validate for `...`/Nil) tied to the "
             "code by comparing `==` results on this run's pairs"],
    rule="pairs/triples from generated schemas, independent rebuilds, and single-parameter variants (bound+1, flag flipped, key "
         "renamed, element/alternative replaced, len form changed); values: witnesses, perturbations, zoo")


def variants(s, rnd):
    """single-parameter changes, each tagged with whether it must alter what the schema accepts"""
    out = []
    p = s.props

    def has(n):
        return p.get(n) is not Nil
    cls = s.__class__
    if isinstance(s, IntSchema):
        for n in ("value", "min", "max"):
            if has(n):
                out.append((cls(p.update(**{n: p.get(n) + 1})), True))
        if not has("min") and not has("value"):
            out.append((cls(p.update(min=0)), True))
    elif isinstance(s, FloatSchema):
        for n in ("value", "min", "max"):
            v = p.get(n)
            if isinstance(v, float) and v == v and abs(v) < 1e300:
                out.append((cls(p.update(**{n: v + 1.0})), True))
    elif isinstance(s, StrSchema):
        if has("value"):
            out.append((cls(p.update(value=p.get("value") + "x")), None))
        if has("alphabet"):
            out.append((cls(p.update(alphabet=p.get("alphabet") + "Q")), None))
        if has("len"):
            out.append((cls(p.update(len=p.get("len") + 1)), None))
        if has("min_len"):
            out.append((cls(p.update(min_len=p.get("min_len") + 1)), None))
    elif isinstance(s, ListSchema):
        els = p.get("elements")
        if els is not Nil and len(els) > 0:
            out.append((cls(p.update(elements=list(els) + [schema.none])), None))
            i = rnd.randrange(len(els))
            if els[i] is not Ellipsis:
                out.append((cls(p.update(elements=list(els[:i]) + [schema.bytes(b"~variant~")] + list(els[i + 1:]))), None))
        if has("len"):
            out.append((cls(p.update(len=p.get("len") + 1)), None))
    elif isinstance(s, DictSchema):
        keys = p.get("keys")
        if keys is not Nil and len(keys) > 0:
            ks = [k for k in keys if k is not Ellipsis]
            if ks:
                k = rnd.choice(ks)
                v, o = keys[k]
                out.append((cls(p.update(keys={**keys, k: (v, not o)})), True))
                out.append((cls(p.update(keys={kk: vv for kk, vv in keys.items() if kk != k})), None))
                out.append((cls(p.update(keys={**keys, "~new~": (schema.none, False)})), True))
            if ... in keys:
                out.append((cls(p.update(keys={kk: vv for kk, vv in keys.items() if kk is not Ellipsis})), None))
            else:
                out.append((cls(p.update(keys={**keys, ...: (..., False)})), None))
    elif isinstance(s, AnySchema):
        ts = p.get("types")
        if ts is not Nil and len(ts) > 0:
            out.append((cls(p.update(types=tuple(ts) + (schema.bytes(b"~variant~"),))), None))
    return out


def universal_at_edge(s):
    """K8: an element list whose first or last concrete schema accepts the `...` object itself"""
    for x in rebuild.subschemas(s):
        if isinstance(x, ListSchema):
            els = x.props.get("elements")
            if els is not Nil and len(els) > 0:
                for e in (els[0], els[-1]):
                    if e is not Ellipsis:
                        try:
                            if not validate(e, ...).has_errors():
                                return True
                        except Exception:
                            pass
            t = x.props.get("type")
            if t is not Nil:
                try:
                    if not validate(t, Nil).has_errors():
                        return True
                except Exception:
                    pass
    return False


def eq(a, b):
    try:
        return bool(a == b)
    except Exception as e:  # noqa: BLE001
        return e


def run(ctx):
    runner.prove(ctx, MODULE, THEOREMS, FILES)
    pairs = valcases.schema_batch(ctx, ctx.n(120, 900), customs=False)
    # fixed floats whose product with 10**precision leaves the float range; tiny and huge magnitudes
    for v in (1e300, -1e300, 1e307, 1.7e308, float("inf"), 5e-324, 1e-300):
        for mk in (lambda v=v: schema.float(v).precision(15), lambda v=v: schema.float(v).precision(2), lambda v=v: schema.float(v),
                   lambda v=v: schema.dict({"x": schema.float(v).precision(3)}), lambda v=v: schema.list([schema.float(v).precision(1), ...])):
            try:
                sc = mk()
            except Exception:  # noqa: BLE001
                continue
            from d42.declaration.types import DictSchema, ListSchema
            pairs.append((sc, {"x": v} if isinstance(sc, DictSchema) else ([v] if isinstance(sc, ListSchema) else v)))
    # wide unions / wide dicts / long element lists (with a witness only the LAST alternative / key / element decides)
    for n in (8, 9, 10, 12, 25):
        pairs += [(schema.any(*[schema.int(i) for i in range(n)]), n - 1), (schema.any(*[schema.str("v%d" % i) for i in range(n)]), "v%d" % (n - 1)),
                  (schema.dict({"code": schema.any(*[schema.int(i) for i in range(n)])}), {"code": n - 1}),
                  (schema.list([schema.int(i) for i in range(n)]), list(range(n))),
                  (schema.dict({"k%02d" % i: schema.int(i) for i in range(n)}), {"k%02d" % i: i for i in range(n)})]
    pool = [s for s, w in pairs]
    from d42 import substitute
    for s0, w0 in pairs[: ctx.n(60, 400)]:
        try:
            pool.append(substitute(s0, w0))
        except Exception:
            pass
    reqs, info = [], []

    def corr(a, b):
        I = encode.Interner()
        try:
            reqs.append(["eq", encode.enc_schema(a, I), encode.enc_schema(b, I), I.rxtab(["", "a"])])
            info.append((a, b))
        except encode.Unencodable:
            pass

    for s, w in pairs:
        nan = gen_value.has_nan(w) or False
        info_d = dict(schema=safe_repr(s), py_a=s)
        ctx.case(safe_repr(s), True)
        c = rebuild.clone(s)
        # reflexive / independent rebuild / != is the negation
        for a, b, what in ((s, s, "a schema is not equal to itself"), (s, c, "an independent rebuild is not equal"),
                           (c, s, "an independent rebuild is not equal (reversed)")):
            r = eq(a, b)
            if r is not True:
                ctx.violation(what, result=safe_repr(r), **info_d)
            if (a != b) is not (not (a == b)):
                ctx.violation("!= is not the negation of ==", **info_d)
        corr(s, c)
        # single-parameter variants
        for sub in rebuild.subschemas(s)[:6]:
            for v, must_differ in variants(sub, ctx.rnd):
                ctx.count("variants")
                r1, r2 = eq(sub, v), eq(v, sub)
                if r1 is not r2:
                    ctx.violation("== is not symmetric", a=safe_repr(sub), b=safe_repr(v), results=[safe_repr(r1), safe_repr(r2)], py_a=sub, py_b=v)
                vals = [w] + gen_value.perturb(w, ctx.rnd)[:10]
                if r1 is True:
                    # equal schemas give identical verdicts on every value
                    for x in valcases.generated_values(ctx, sub, ("lo", "hi")) + valcases.generated_values(ctx, v, ("lo", "hi")) + vals:
                        try:
                            va, vb = validate(sub, x).has_errors(), validate(v, x).has_errors()
                        except Exception:
                            continue
                        if va != vb:
                            ctx.violation("schemas compare equal but give different verdicts on a value", a=safe_repr(sub), b=safe_repr(v),
                                          value=safe_repr(x), py_a=sub, py_b=v, k8=universal_at_edge(sub) or universal_at_edge(v))
                            break
                corr(sub, v)
        # schema == value  <=>  value validates
        try:
            bnd = valcases.boundary_values(s, w, 16)
        except Exception:  # noqa: BLE001
            bnd = []
        for x in [w] + bnd + gen_value.perturb(w, ctx.rnd)[:8] + ctx.rnd.sample(gen_value.zoo(), 4):
            if x is Nil or hasattr(x, "props"):
                continue
            ctx.count("eq_value_probes")
            try:
                want = not validate(s, x).has_errors()
            except Exception:
                continue
            got = eq(s, x)
            if got is not want:
                ctx.violation("schema == value disagrees with validation", value=safe_repr(x), eq=safe_repr(got), validates=want, **info_d)
            # ... and "validates" in the sense of the schema's declared meaning (the independent Conforms oracle), not only of
            # whatever validate() answers
            try:
                means = conforms.conforms(s, x)
            except Exception:  # noqa: BLE001
                means = None
            if isinstance(got, bool) and means is not None and got is not means and not gen_value.has_nan(x):
                ctx.violation("schema == value disagrees with the declared meaning of the schema", value=safe_repr(x), eq=safe_repr(got),
                              conforms=means, **info_d)
            # != is the negation of ==, whichever side the schema is on
            try:
                ne1, ne2, eq2 = (s != x), (x != s), (x == s)
            except Exception:  # noqa: BLE001  (a value whose own comparison raises is outside the property)
                continue
            ctx.count("ne_value_probes")
            if isinstance(got, bool) and (ne1 is not (not got)):
                ctx.violation("!= is not the negation of == (schema against a value)", value=safe_repr(x), eq=safe_repr(got), ne=safe_repr(ne1), **info_d)
            elif isinstance(eq2, bool) and isinstance(ne2, bool) and (ne2 is not (not eq2)):
                ctx.violation("!= is not the negation of == (value against a schema)", value=safe_repr(x), eq=safe_repr(eq2), ne=safe_repr(ne2), **info_d)
    # corpus: the recorded findings' witnesses (classified, not suppressed wholesale)
    nan = float("nan")
    for a, b, x in ((schema.list([schema.any, ...]), schema.list([schema.any, schema.any]), [1]),
                    (schema.list([..., schema.any]), schema.list([schema.int, schema.any]), [1, 2]),
                    (schema.list(schema.any), schema.list, [1])):
        ctx.count("corpus_pairs")
        if eq(a, b) is True:
            try:
                if validate(a, x).has_errors() != validate(b, x).has_errors():
                    ctx.violation("schemas compare equal but give different verdicts on a value", a=safe_repr(a), b=safe_repr(b),
                                  value=safe_repr(x), py_a=a, py_b=b)
            except Exception:
                pass
        corr(a, b)
    # schemas narrowed by substitution against hand-written equivalents and near-equivalents (props hold explicit Nil)
    from d42 import substitute as _sub
    narrowed = [_sub(schema.list(schema.int), [1, ...]), _sub(schema.list(schema.int), [..., 1]), _sub(schema.list(schema.int), [1, 2]),
                _sub(schema.list(schema.int).len(2), [1, ...]), _sub(schema.list, [1]), _sub(schema.dict, {"a": 1})]
    hand = [schema.list([schema.int(1), ...]), schema.list([schema.int(1), ...]).len(3), schema.list([..., schema.int(1)]),
            schema.list([schema.int(1), schema.int(2)]), schema.list([schema.int(1)]), schema.list([schema.int(1), ...]).len(1, ...),
            schema.dict({"a": schema.int(1)}), schema.list(schema.int)]
    for a in narrowed + hand:
        for b in narrowed + hand:
            ctx.count("narrowed_pairs")
            r1, r2 = eq(a, b), eq(b, a)
            if r1 is not r2:
                ctx.violation("== is not symmetric", a=safe_repr(a), b=safe_repr(b), results=[safe_repr(r1), safe_repr(r2)], py_a=a, py_b=b)
            if r1 is True:
                for x in ([1], [1, 2], [1, 2, 3], [], [2], {"a": 1}, {}):
                    try:
                        if validate(a, x).has_errors() != validate(b, x).has_errors():
                            ctx.violation("schemas compare equal but give different verdicts on a value", a=safe_repr(a), b=safe_repr(b),
                                          value=safe_repr(x), py_a=a, py_b=b, k8=universal_at_edge(a) or universal_at_edge(b))
                            break
                    except Exception:
                        pass
            corr(a, b)
    # declared values that are equal under Python's == but of different kinds (1 / True / 1.0, 0 / False / 0.0, "" / b""):
    # whatever == answers for such a pair, equal schemas must agree on every value
    twin_makers = [(lambda: schema.int(1), lambda: schema.int(True)), (lambda: schema.int(0), lambda: schema.int(False)),
                   (lambda: schema.int(1).min(1), lambda: schema.int(True).min(True)),
                   (lambda: schema.int.min(0), lambda: schema.int.min(False)), (lambda: schema.int.max(1), lambda: schema.int.max(True)),
                   (lambda: schema.list.len(1), lambda: schema.list.len(True)), (lambda: schema.str.len(0), lambda: schema.str.len(False)),
                   (lambda: schema.float.precision(1), lambda: schema.float.precision(True)),
                   # the same keys declared in another order, the `...: ...` marker at another position (declared so, or by +)
                   (lambda: schema.dict({"id": schema.int, ...: ...}), lambda: schema.dict({...: ..., "id": schema.int})),
                   # the same instant written with two UTC offsets; a date and the datetime at its midnight
                   (lambda: schema.datetime(_dt.datetime(2024, 2, 29, 12, 0, tzinfo=_dt.timezone.utc)),
                    lambda: schema.datetime(_dt.datetime(2024, 2, 29, 15, 0, tzinfo=_dt.timezone(_dt.timedelta(hours=3))))),
                   (lambda: schema.date(_dt.date(2024, 2, 29)), lambda: schema.date(_dt.datetime(2024, 2, 29, 0, 0))),
                   (lambda: schema.float(0.0), lambda: schema.float(-0.0)), (lambda: schema.str("\u00e9"), lambda: schema.str("e\u0301")),
                   (lambda: schema.dict({"a": schema.int, "b": schema.str}), lambda: schema.dict({"b": schema.str, "a": schema.int})),
                   (lambda: schema.dict({"id": schema.int, "n": schema.str, ...: ...}),
                    lambda: schema.dict({"id": schema.int, ...: ...}) + schema.dict({"n": schema.str})),
                   (lambda: schema.dict({optional("o"): schema.int, ...: ..., "r": schema.none}),
                    lambda: schema.dict({"r": schema.none, optional("o"): schema.int, ...: ...})),
                   # float parameters that differ by less than the validator's tolerance (or by one ulp): whatever == answers,
                   # schemas that compare equal must agree on the values between and around them
                   (lambda: schema.float(1.0), lambda: schema.float(1.0 + 8e-10)), (lambda: schema.float(1e9), lambda: schema.float(1e9 + 0.5)),
                   (lambda: schema.float(0.1 + 0.2), lambda: schema.float(0.3)), (lambda: schema.float(-1.0), lambda: schema.float(-1.0 - 8e-10)),
                   (lambda: schema.float.min(1.0), lambda: schema.float.min(1.0 + 1e-12)),
                   (lambda: schema.float.max(2.0), lambda: schema.float.max(2.0 - 4e-16)),
                   (lambda: schema.float.min(0.3), lambda: schema.float.min(0.1 + 0.2)),
                   (lambda: schema.float(1.0).precision(2), lambda: schema.float(1.0 + 8e-10).precision(2)),
                   (lambda: schema.float.min(1.0).max(3.0), lambda: schema.float.min(1.0 + 8e-10).max(3.0 - 8e-10))]
    twins = []
    for ma, mb in twin_makers:
        try:
            twins.append((ma(), mb()))
        except Exception:  # noqa: BLE001  (a declaration the tree under test refuses is not part of the family)
            ctx.count("twin_pairs_not_declarable")
    wraps = [lambda t: t, lambda t: schema.list([t, ...]), lambda t: schema.dict({optional("k"): t, ...: ...}),
             lambda t: schema.any(t, schema.str), lambda t: schema.dict({"a": schema.list(schema.any(t, schema.none))})]
    inner_probes = [_dt.datetime(2024, 2, 29, 12, 0, tzinfo=_dt.timezone.utc), _dt.datetime(2024, 2, 29, 15, 0, tzinfo=_dt.timezone(_dt.timedelta(hours=3))),
                    _dt.datetime(2024, 2, 29, 12, 0), _dt.date(2024, 2, 29), _dt.datetime(2024, 2, 29, 0, 0), -0.0, "\u00e9", "e\u0301",
                    1.0 - 5e-10, 1.0 + 4e-10, 1.0 + 1.3e-9, 1.0 + 1.7e-9, 1.0 + 5e-13, 1.0 + 1e-12, 2.0 - 2e-16, 2.0 - 4e-16, 0.3, 0.1 + 0.2, 1e9 + 0.25, 1e9 - 0.6,
                    1e9 + 1.2, -1.0 + 5e-10, -1.0 - 1.5e-9, 3.0, 3.0 - 4e-10, 1.004, 1.0049999,
                    1, True, 0, False, 1.0, 0.0, 2, "1", None, [], [1], [True], "", {}, {"id": 1}, {"id": "x"}, {"id": 1, "n": 2},
                    {"a": 1, "b": "s"}, {"a": "s", "b": 1}, {"r": None}, {"r": 1, "o": 1}, {"o": "x", "r": None}, {"id": 1, "n": "s", "z": 0}]
    for a0, b0 in twins:
        for wi, wr in enumerate(wraps):
            try:
                a, b = wr(a0), wr(b0)
            except Exception:  # noqa: BLE001
                continue
            ctx.count("twin_pairs")
            r1, r2 = eq(a, b), eq(b, a)
            if r1 is not r2:
                ctx.violation("== is not symmetric", a=safe_repr(a), b=safe_repr(b), results=[safe_repr(r1), safe_repr(r2)], py_a=a, py_b=b)
            if r1 is True:
                for x0 in inner_probes:
                    x = [x0, [x0], {"k": x0}, x0, {"a": [x0]}][wi]
                    try:
                        if validate(a, x).has_errors() != validate(b, x).has_errors():
                            ctx.violation("schemas compare equal but give different verdicts on a value", a=safe_repr(a), b=safe_repr(b),
                                          value=safe_repr(x), py_a=a, py_b=b)
                            break
                    except Exception:  # noqa: BLE001
                        pass
    if not ctx.quick():
        # thorough: ALL ordered pairs of the small scope to depth 1 (leaves + every depth-1 container): symmetry, equal => same
        # verdicts on the scope's values, and the == result against the model
        from .. import smallscope
        scope = smallscope.leaves() + smallscope.depth1()
        svals = smallscope.values()
        for i, a in enumerate(scope):
            for b in scope[i:]:
                ctx.count("smallscope_pairs")
                r1, r2 = eq(a, b), eq(b, a)
                if r1 is not r2:
                    ctx.violation("== is not symmetric", a=safe_repr(a), b=safe_repr(b), results=[safe_repr(r1), safe_repr(r2)], py_a=a, py_b=b)
                if r1 is True and a is not b:
                    for x in svals:
                        try:
                            if validate(a, x).has_errors() != validate(b, x).has_errors():
                                ctx.violation("schemas compare equal but give different verdicts on a value", a=safe_repr(a), b=safe_repr(b),
                                              value=safe_repr(x), py_a=a, py_b=b, k8=universal_at_edge(a) or universal_at_edge(b))
                                break
                        except Exception:  # noqa: BLE001
                            pass
                corr(a, b)
        ctx.cov["smallscope_schemas"] = len(scope)
    # cross-class pairs, with universal schemas on either side
    universal = [schema.any, schema.int | schema.any, schema.alias("U", schema.any), schema.any(schema.any, schema.none)]
    # schema == value is true exactly when the value validates — also when the value is one of the objects the library uses as
    # sentinels internally (`...`, Nil), or None / NotImplemented / a type
    from niltype import Nil as _Nil
    for sch in universal + [schema.none, schema.int, schema.list(schema.any), schema.list([schema.any]), schema.dict({"k": schema.any}),
                            schema.any(schema.none, schema.int), schema.dict, schema.list]:
        for val in (..., _Nil, None, NotImplemented, int, [...], [_Nil], {"k": ...}, {"k": _Nil}, [None], (), 0):
            ctx.count("sentinel_value_comparisons")
            try:
                want = not validate(sch, val).has_errors()
                got_eq, got_ne = (sch == val), (sch != val)
            except Exception:  # noqa: BLE001
                continue
            if got_eq is not want or got_ne is want:
                ctx.violation("schema == value disagrees with validate(schema, value)" if got_eq is not want else
                              "schema != value is not the negation of ==", schema=safe_repr(sch), value=safe_repr(val),
                              eq=safe_repr(got_eq), ne=safe_repr(got_ne), validates=want)
                break
    others = [schema.int, schema.str, schema.none, schema.list, schema.dict, schema.bool, schema.float, schema.bytes,
              schema.list(schema.any), schema.dict({"a": schema.any}), schema.alias("U", schema.int)]
    for a in universal + others:
        for b in universal + others:
            ctx.count("cross_class_pairs")
            r1, r2 = eq(a, b), eq(b, a)
            if r1 is not r2:
                ctx.violation("== is not symmetric", a=safe_repr(a), b=safe_repr(b), results=[safe_repr(r1), safe_repr(r2)], py_a=a, py_b=b)
            if r1 is True and type(a) is not type(b):
                ctx.violation("schemas of different types compare equal", a=safe_repr(a), b=safe_repr(b), py_a=a, py_b=b)
            corr(a, b)
    try:
        fn = schema.float(nan)
    except Exception:  # noqa: BLE001  (the tree under test refuses the declaration: nothing to compare)
        fn = None
        ctx.count("nan_schema_not_declarable")
    if fn is not None and eq(fn, fn) is not True:
        ctx.violation("a schema is not equal to itself", schema=safe_repr(fn), py_a=fn)
    # transitivity on random triples from the pool + clones
    for _ in range(ctx.n(300, 3000)):
        a = ctx.rnd.choice(pool)
        b = rebuild.clone(a) if ctx.rnd.random() < .5 else ctx.rnd.choice(pool)
        c = rebuild.clone(b) if ctx.rnd.random() < .5 else ctx.rnd.choice(pool)
        ctx.count("triples")
        if eq(a, b) is True and eq(b, c) is True and eq(a, c) is not True:
            ctx.violation("== is not transitive", a=safe_repr(a), b=safe_repr(b), c=safe_repr(c), py_a=a, py_b=b)
        if eq(a, b) is not eq(b, a):
            ctx.violation("== is not symmetric", a=safe_repr(a), b=safe_repr(b), py_a=a, py_b=b)
        corr(a, b)
    res = model.run_batch(reqs)
    bad = 0
    for r, (a, b) in zip(res, info):
        ctx.count("corr_cases")
        real = eq(a, b)
        if (r == "1") != (real is True):
            bad += 1
            if bad <= 10:
                ctx.breakage("correspondence", "`==` differs between model and code", a=safe_repr(a)[:400], b=safe_repr(b)[:400],
                             detail=f"real {real!r} model {r}")
    ctx.cov["corr_disagreements"] = bad
    for s, w in pairs[:3]:
        ctx.sample({"schema": safe_repr(s)[:300]})


def replay(path):
    print(open(path).read()[:6000])
    return 0


MANIFEST = dict(
    category="proof",
    technique="Lean 4 theorems about the equality model (Props.__eq__ with its validate fall-through) + `==` correspondence + "
              "equality-law search on rebuilds and single-parameter variants",
    text="Props/C15.lean: the model's schema equality is reflexive and symmetric (pyEq_refl, pyEq_symm) and `schema == "
         "value` is exactly 'the value validates' (pyEqValue_iff); Props/C15Verdicts.lean: equal schemas give the same "
         "verdict and the same errors on every value (pyEq_same_verdicts, pyEq_same_validation) and equality is transitive "
         "(pyEq_trans, pyEq_trans_strong). Tie: the boolean result of == compared between model and code on pairs of "
         "generated schemas, rebuilds and variants; search: reflexive / symmetric / transitive / != / verdict agreement / "
         "schema==value on the real code."
         " Source pins: the normalised text of every anchor file is compared with the text the model was last validated against; a changed file is a broken obligation (no-failing-input-found unless the search finds an input).",
    note="Partial: the full statement is false of the code (K8: schema.list([schema.any, ...]) == schema.list([schema.any, "
         "schema.any]); K6: schema.float(nan) != itself). Trusted: Lean kernel + standard axioms, hand model (sampling tie), codec.")
