"""C08 — validation is total: any Python value yields a result, and failing is reporting."""
from ..common import safe_repr
from .. import encode, gen_value, model, runner, sexp, valcases, valcorr
from ..common import d42  # noqa: F401
from d42 import validate
from d42.validation import Formatter, ValidationException, validate_or_fail

MODULE = "D42.Props.C08All"
THEOREMS = ["validate_ok", "format_total", "validateOrFail_spec", "validateAll_ok", "validateElems_ok", "windows_ok",
            "validateFields_ok", "anyOk_ok", "validateScalarX_ok", "floatValueOkX_ok", "formatX_ok_of_renderable", "format_shown",
            "validateScalar_eq_extracted", "listPrelude_eq_extracted", "dictPrelude_eq_extracted", "anyPrelude_eq_extracted", "validateP_list_prelude", "validateP_dict_prelude"]
FILES = ["D42/Model/Data.lean", "D42/Model/Float.lean", "D42/Model/Validate.lean", "D42/Model/Format.lean", "D42/Props/C08.lean",
         "D42/Props/C03.lean", "D42/Props/C03Facts.lean", "D42/Props/C08Format.lean",
         "D42/Model/CheckProg.lean", "D42/Gen/ValidatorProg.lean", "D42/Props/ValidatorProg.lean", "D42/Props/C08All.lean"]

EVIDENCE = dict(
    level="proof",
    checker_cmd="lake build D42.Props.C08All d42model && lake env lean <#print axioms audit>",
    trusted=["Lean 4.33.0 kernel", "axioms ⊆ {propext, Classical.choice, Quot.sound}",
             "hand-written model D42/Model/Validate.lean tied to d42/validation/_validator.py by the "
             "correspondence run on this run's cases (error lists compared as multisets)",
             "harness/encode.py + D42/Model/Codec.lean (wire format)",
             "CPython: isinstance/len/==/dict lookup on standard data never raise; re.search result shipped as a table"],
    rule="schemas from the type-directed generator (depth<=3/4); values: witness, generated under lo/hi/rnd draws, "
         "one-step perturbations at every depth, hostile zoo alone and injected at a random position; "
         "a case is non-trivial when the value is not the bare witness; distinct by safe_repr(schema)+safe_repr(value); thorough tier adds every other schema of the small scope x 121 values, outcome and full error lists")


def oracle(ctx, cases):
    """model-free: no exception; every error renders to a non-empty message; validate_or_fail contract."""
    fmt = Formatter()
    for c in cases:
        ctx.case((safe_repr(c.schema), safe_repr(c.value)), c.tag != "witness")
        ctx.count("tag:" + c.tag)
        if c.real_exc is not None:
            ctx.violation("validate raised " + type(c.real_exc).__name__, schema=safe_repr(c.schema),
                          value=safe_repr(c.value), exception=safe_repr(c.real_exc), py_schema=c.schema, py_value=c.value)
            continue
        try:
            msgs = [e.format(fmt) for e in c.real]
        except Exception as e:  # noqa: BLE001
            ctx.violation("formatting an error raised " + type(e).__name__, schema=safe_repr(c.schema),
                          value=safe_repr(c.value), exception=safe_repr(e))
            continue
        if any((not isinstance(m, str)) or m == "" for m in msgs):
            ctx.violation("an error rendered to an empty message", schema=safe_repr(c.schema), value=safe_repr(c.value))
        # format_result: [] without errors, otherwise a header line plus one "- " line per error
        try:
            from d42.validation import format_result
            from d42.validation._validation_result import ValidationResult
            lines = format_result(ValidationResult(list(c.real)))
            if (not c.real and lines != []) or (c.real and (len(lines) != len(c.real) + 1
                                                            or not all(l.startswith("- ") for l in lines[1:]))):
                ctx.violation("format_result does not carry one line per error", schema=safe_repr(c.schema), value=safe_repr(c.value),
                              lines=lines[:6], errors=len(c.real))
        except Exception as e:  # noqa: BLE001
            ctx.violation("format_result raised " + type(e).__name__, schema=safe_repr(c.schema), value=safe_repr(c.value))
        try:
            r = validate_or_fail(c.schema, c.value)
            if r is not True or c.real:
                ctx.violation("validate_or_fail returned although there are errors" if c.real else
                              "validate_or_fail returned a non-True value", schema=safe_repr(c.schema), value=safe_repr(c.value))
        except ValidationException as e:
            lines = [ln for ln in str(e).split("\n - ")[1:]]
            if not c.real:
                ctx.violation("validate_or_fail raised without errors", schema=safe_repr(c.schema), value=safe_repr(c.value))
            elif len(lines) != len(c.real) or not all(m in str(e) for m in msgs):
                # one " - " entry per error (an entry may span several physical lines: schemas print on several lines)
                ctx.violation("ValidationException does not carry one line per error", schema=safe_repr(c.schema),
                              value=safe_repr(c.value), message=str(e))
        except Exception as e:  # noqa: BLE001
            ctx.violation("validate_or_fail raised " + type(e).__name__, schema=safe_repr(c.schema), value=safe_repr(c.value))


_KIND = {"Type": "type", "Value": "value", "MinValue": "min", "MaxValue": "max", "Length": "len", "MinLength": "minlen",
         "MaxLength": "maxlen", "Alphabet": "alphabet", "Substr": "substr", "Regex": "regex", "MissingElement": "missingelem",
         "ExtraElement": "extraelem", "MissingKey": "missingkey", "ExtraKey": "extrakey", "SchemaMismatch": "mismatch",
         "InvalidUUIDVersion": "uuidversion"}


def format_correspondence(ctx, cases):
    """the model of the formatter (which path a message names, the printed length, the one raise point) and of
    validate_or_fail against the real ones: for every case with errors the multiset of (kind, named path, printed length)
    read off the REAL rendered messages equals the model's; exceptions agree; validate_or_fail's outcome agrees"""
    import re as _re
    fmt = Formatter()
    todo = [c for c in cases if c.req is not None and c.real_exc is None and c.real]
    # cases with a length error first (the formatter's only computation), then the rest, up to the budget
    todo.sort(key=lambda c: 0 if any("Length" in type(e).__name__ for e in c.real) else 1)
    todo = todo[: ctx.n(2500, 20000)]
    reqs, exp = [], []
    for c in todo:
        want = []
        exc = None
        for e in c.real:
            try:
                m = e.format(fmt)
            except Exception as x:  # noqa: BLE001
                exc = type(x).__name__
                break
            kind = _KIND.get(type(e).__name__.replace("ValidationError", ""), "?")
            # the path the message names: the error's own path, or that path extended by the missing index / key
            import copy as _copy
            cands = [e.path]        # PathHolder indexing appends IN PLACE: always index a copy
            if kind == "missingelem":
                cands.append(_copy.deepcopy(e.path)[e.index])
            if kind == "missingkey":
                cands.append(_copy.deepcopy(e.path)[e.missing_key])
            named = None
            for pth in sorted(cands, key=len, reverse=True):
                if len(pth) == 0 or fmt._format_path(pth) in m:
                    named = pth
                    break
            n = None
            if kind in ("len", "minlen", "maxlen"):
                # the number the formatter COMPUTES (len(actual_value), its one raise point) — not the declared length printed before it
                mm = _re.search(r"but it has (\d+)", m) or _re.search(r"has (\d+)", m)
                n = int(mm.group(1)) if mm else None
            try:
                want.append(sexp.dumps([kind, encode.canon_model_path(encode.tostr(encode.enc_path(named, c.I))) if named is not None else "?",
                                        str(n) if n is not None else "_"]))
            except Exception:  # noqa: BLE001
                want = None
                break
        if want is None:
            continue
        reqs.append(["vformat"] + c.req[2:])
        exp.append((c, ("exc", exc) if exc else ("ok", sorted(want))))
    res = model.run_batch(reqs)
    bad = 0
    for r, (c, want) in zip(res, exp):
        ctx.count("format_corr_cases")
        if isinstance(r, str):
            got = ("driver", r)
        elif r[0] == "exc":
            got = ("exc", r[1] if isinstance(r[1], str) else r[1][0])
        else:
            got = ("ok", sorted(sexp.dumps([m[1], encode.canon_model_path(m[2]), m[3]]) for m in r[1]))
        if got != want:
            bad += 1
            if bad <= 5:
                ctx.breakage("correspondence", "what the rendered messages name (kind, path, printed length) differs between the "
                             "formatter model and the real Formatter", schema=safe_repr(c.schema), value=safe_repr(c.value),
                             detail=f"real  {want}\nmodel {got}")
    ctx.cov["format_corr_disagreements"] = bad
    # validate_or_fail
    reqs, exp = [], []
    for c in [c for c in cases if c.req is not None][: ctx.n(2500, 20000)]:
        try:
            out = ("ok", "1") if validate_or_fail(c.schema, c.value) is True else ("ok", "?")
        except ValidationException as e:
            out = ("exc", ["ValidationException", str(len(str(e).split("\n - ")) - 1)])
        except Exception as e:  # noqa: BLE001
            out = ("exc", type(e).__name__)
        reqs.append(["vof"] + c.req[2:])
        exp.append((c, out))
    res = model.run_batch(reqs)
    bad = 0
    for r, (c, want) in zip(res, exp):
        ctx.count("vof_corr_cases")
        got = ("driver", r) if isinstance(r, str) else (r[0], r[1])
        if got != want:
            bad += 1
            if bad <= 5:
                ctx.breakage("correspondence", "validate_or_fail outcome differs between model and code", schema=safe_repr(c.schema),
                             value=safe_repr(c.value), detail=f"real  {want}\nmodel {got}")
    ctx.cov["vof_corr_disagreements"] = bad


def run(ctx):
    from .. import extract_validator
    ok, msg = extract_validator.run()
    if not ok:
        ctx.breakage("translation", "validator extraction failed (d42/validation/_validator.py no longer consists of the "
                     "recognised idioms): " + msg)
    runner.prove(ctx, MODULE, THEOREMS, FILES)
    # a short directed SEQUENCE first (accept-everything members next to failing siblings, each pair several times in a row):
    # an answer that depends on what was validated before must show here, before the bulk — a validator that accumulates state
    # makes the bulk run quadratic, so a violation found here ends the search
    from .. import hostile
    pre = hostile.accept_all_member_cases()
    import signal

    class _Stuck(BaseException):
        pass

    def _alarm(signum, frame):
        raise _Stuck()
    old = signal.signal(signal.SIGALRM, _alarm)
    try:
        for c in pre:
            signal.setitimer(signal.ITIMER_REAL, 20.0)      # "returns a result": a call that never returns does not
            try:
                valcorr.run_real(c)
                oracle(ctx, [c])
            except _Stuck:
                ctx.violation("validate / validate_or_fail did not return within 20 s (after the calls made before it in this "
                              "process)", schema=safe_repr(c.schema), value=safe_repr(c.value), position_in_sequence=pre.index(c))
            finally:
                signal.setitimer(signal.ITIMER_REAL, 0)
            if ctx.violations:
                return
    finally:
        signal.signal(signal.SIGALRM, old)
    n = ctx.n(60, 400)
    cases = []
    for s, w in valcases.scalar_corpus() + valcases.schema_batch(ctx, n, customs=True):
        cases += valcases.value_cases(ctx, s, w, perturb=ctx.n(8, 20), zoo=ctx.n(8, 20), inject=ctx.n(6, 12))
    # the hostile zoo against a few fixed schemas with raise-prone arithmetic
    from d42 import schema
    fixed = [schema.float(1.0).precision(2), schema.float(1e308).precision(15), schema.float.min(0.5).max(1.5),
             schema.str.regex(r"\d+"), schema.uuid4, schema.list([..., schema.int, ...]),
             schema.dict({"a": schema.any(schema.int, schema.str.alphabet("ab"))})]
    for s in fixed:
        for v in gen_value.zoo():
            cases.append(valcorr.ValCase(s, v, "zoo"))
    cases += valcases.list_form_value_cases(ctx)
    from .. import hostile
    cases += hostile.defaulting_dict_cases()
    cases += hostile.sentinel_value_cases()
    cases += hostile.same_name_alias_cases()
    cases += hostile.shared_object_cases()
    cases += hostile.special_key_cases()
    cases += hostile.line_break_and_odd_value_cases()
    cases += hostile.big_value_cases()
    for c in cases:
        valcorr.run_real(c)
        valcorr.prepare(c)
    ctx.count("skipped_unencodable", sum(1 for c in cases if c.skip))
    oracle(ctx, cases)
    from .. import limits
    limits.huge_int_probe(ctx, "C08")
    dis = valcorr.compare(cases, ctx, view="errors")
    for c, detail in dis[:10]:
        ctx.breakage("correspondence", "validator view (error multiset) differs between model and code",
                     schema=safe_repr(c.schema), value=safe_repr(c.value), detail=detail, request=c.req)
    ctx.cov["corr_disagreements"] = len(dis)
    format_correspondence(ctx, cases)
    if not ctx.quick():
        # thorough: the whole small scope (every other schema; C02 / C03 cover the rest), outcome and full error lists
        from .. import smallscope
        smallscope.validate_scope(ctx, view="errors", oracle=oracle, stride=2, what="outcome / error list")
    for c in cases[:200:40]:
        ctx.sample({"schema": safe_repr(c.schema), "value": safe_repr(c.value), "tag": c.tag,
                    "errors": [type(e).__name__ for e in (c.real or [])]})


def replay(path):
    import json
    print(open(path).read()[:4000])
    return 0

MANIFEST = dict(
    category="proof",
    technique="Lean 4 theorem (mutual induction: raising validator = pure validator) + differential correspondence"
              " + validator translator (check programs extracted from the source, model = interpreter proved for all inputs)",
    text="validate_ok: the model of the validator with every Python raise point explicit never raises and equals the pure "
         "error-list function, for all schemas and all values (incl. nan, inf, huge ints, opaque objects, `...`); "
         "format_total: every error it produces renders (the formatter's only raise point, len(actual), is reached for "
         "sized values only); validateOrFail_spec: validate_or_fail returns True iff there are no errors and otherwise "
         "raises ValidationException with one rendered line per error. Tie: full error lists of model and code compared on "
         "generated (schema, value) cases each run; model-free oracle: no exception, non-empty messages, the "
         "validate_or_fail contract, on the real code."
         " Translator: the statement sequences of the scalar Validator.visit_* methods and of the container preludes are extracted from the source on every run (Gen/ValidatorProg.lean) and validateScalar_eq_extracted / listPrelude_eq_extracted / validateP_list_prelude prove the hand model equal to the interpreter on them for every input. Source pins: the normalised text of every anchor file is compared with the text the model was last validated against; a changed file is a broken obligation (no-failing-input-found unless the search finds an input).",
    note="Trusted: Lean kernel, axioms {propext, Classical.choice, Quot.sound}, the hand-written model (tied by sampling), "
         "wire codec, CPython built-ins not raising on standard data, re.search results shipped as a table. "
         "Formatter wording is not modelled; objects whose own special methods raise are excluded by the property.")
