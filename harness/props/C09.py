"""C09 — regex generation yields a full match or refuses loudly."""
import re
import signal
import warnings

warnings.simplefilter('ignore', FutureWarning)

from ..common import safe_repr
from .. import encode, gen_regex, model, runner, scripted_random as SR, sexp
from ..common import d42  # noqa: F401
from d42 import validate
from d42.generation import Random, RegexGenerator

MODULE = "D42.Props.C09Match"
THEOREMS = ["genSeq_sound", "genRe_sound", "genAlt_sound", "genRe_unsup", "genClsItem_unsup", "rep_request",
            "genSeq_error_kind", "genNotIn_sound", "genClsItem_sound", "repeatG_sound", "matchSeqB_iff", "matchB_iff", "repN_bound", "genSeq_matchB", "matchB_example"]
FILES = ["D42/Model/Data.lean", "D42/Model/Gen.lean", "D42/Gen/Consts.lean", "D42/Props/C09.lean", "D42/Model/RegexMatch.lean", "D42/Props/C09Match.lean"]

EVIDENCE = dict(
    level="proof",
    checker_cmd="lake build D42.Props.C09Match d42model && lake env lean <#print axioms audit>",
    trusted=["Lean kernel; standard axioms", "sre_parse output converted to the model's Re tree by harness/encode.py (trusted, ~60 lines)",
             "CPython re.fullmatch implements the textbook language semantics for the supported constructs",
             "RegexGenerator alphabets and max_repeat regenerated into D42/Gen/Consts.lean on this run"],
    rule="patterns from the supported grammar (depth<=3/5; classes with ranges/negation, groups, alternation, greedy/lazy "
         "quantifiers incl. open-ended and min above the cap, anchors at the ends) and the same patterns with an unsupported "
         "construct embedded at a random position; draw policies lo/hi/alt/alt2/rnd; non-trivial = at least one draw consumed")


class _Timeout(Exception):
    pass


def _alarm(sig, frm):
    raise _Timeout()


_SLOW = set()      # patterns on which CPython's backtracking matcher already ran out of time once: not asked again


def fullmatch(p, s, secs=0.5):
    if p in _SLOW:
        raise _Timeout()
    old = signal.signal(signal.SIGALRM, _alarm)
    signal.setitimer(signal.ITIMER_REAL, secs)
    try:
        return re.fullmatch(p, s) is not None
    except _Timeout:
        _SLOW.add(p)
        raise
    finally:
        signal.setitimer(signal.ITIMER_REAL, 0)
        signal.signal(signal.SIGALRM, old)


def anchors_only_at_ends(p):
    """the supported grammar has anchors at the pattern ends only; patterns with an anchor anywhere else are outside
    both lists of the property and are not used"""
    import sys
    sre = sys.modules.get("re._parser") or __import__("sre_parse")
    src = sys.modules.get("re._constants") or __import__("sre_constants")

    def has_at(items):
        for op, av in items:
            if op == src.AT:
                return True
            if op == src.SUBPATTERN and has_at(av[3]):
                return True
            if op in (src.MAX_REPEAT, src.MIN_REPEAT) and has_at(av[2]):
                return True
            if op == src.BRANCH and any(has_at(a) for a in av[1]):
                return True
            if op in (src.ASSERT, src.ASSERT_NOT) and has_at(av[1]):
                return True
        return False
    try:
        items = list(sre.parse(p))
    except Exception:
        return False
    if items and items[0][0] == src.AT:
        items = items[1:]
    if items and items[-1][0] == src.AT:
        items = items[:-1]
    return not has_at(items)


def generate(p, policy):
    with SR.scripted(policy) as m:
        r = Random()
        g = RegexGenerator(r)
        try:
            return ("ok", g.generate(p)), m.log
        except Exception as e:  # noqa: BLE001
            return ("exc", e), m.log


def run(ctx):
    from .. import extract_consts
    extract_consts.run()
    runner.prove(ctx, MODULE, THEOREMS, FILES)
    pats = []
    n = ctx.n(400, 4000)
    depth = ctx.n(3, 5)
    while len(pats) < n:
        p = gen_regex.gen_pattern(ctx.rnd, depth=ctx.rnd.randint(1, depth), allow_neg=True)
        try:
            re.compile(p)
        except Exception:
            continue
        if not anchors_only_at_ends(p):
            continue
        pats.append((p, None))
        if ctx.rnd.random() < .35:
            q, u = gen_regex.embed_unsupported(ctx.rnd, p)
            try:
                re.compile(q)
                if anchors_only_at_ends(q):
                    pats.append((q, u))
            except Exception:
                pass
    # directed patterns first (they get the full sweep over every candidate of every choice)
    pats = [(p, None) for p in (r"a.b", r"^.{3}$", r"(.|x)y", r"[^a].", r"\w.\d", r"^id=.;$", r".+?-.*", r"[^\d\w]", r"[a-c.]z", r"(?:.a){2}",
                                r"\.", r"[^.]", "[\ud800-\udbff]", "[\ud000-\ud900]x", "[\ud7fe-\ud801]{2}", "[\u0080-\uffff]{3}",
                                "[\U00010000-\U0010ffff]", "[\x00-\x1f]+", "[a-\u00ff]{2,3}")] + pats
    reqs, exp, info = [], [], []
    for p, unsup in pats:
        pols = ["lo", "hi", "alt", "alt2", "rnd", "cmax", "cmin"]
        if len(pats) and (p, unsup) in pats[:ctx.n(12, 60)]:
            pols += ["idx:%d" % k for k in range(0, 128, 1)]       # every candidate of every choice, for the first patterns
        for pol in pols:
            (k, v), log = generate(p, SR.make_policy(pol, ctx.rnd))
            ndraws = len(log)
            ctx.case((p, pol), ndraws > 0)
            ctx.count("supported" if unsup is None else "with_unsupported")
            if k == "ok":
                if len(v) > 3000:
                    ctx.count("skipped_long_output")
                else:
                    try:
                        ok = fullmatch(p, v)
                    except _Timeout:
                        ctx.count("skipped_fullmatch_timeout")
                        ok = True
                    if not ok:
                        ctx.violation("generated string does not match the entire pattern", pattern=p, generated=v,
                                      policy=pol, unsupported=unsup, draws=log[:30])
                ctx.count("generated")
            else:
                ctx.count("refused:" + type(v).__name__)
                if unsup is None and not isinstance(v, IndexError):
                    # supported grammar must generate (IndexError = negated class that excludes the whole alphabet: loud)
                    ctx.violation("generator raised %s on a pattern from the supported grammar" % type(v).__name__,
                                  pattern=p, policy=pol, exception=safe_repr(v))
            I = encode.Interner()
            try:
                import sys
                sre = sys.modules.get("re._parser") or __import__("sre_parse")
                tree = encode.enc_re_items(sre.parse(p))
                draws, rq = SR.draws_of(log, I)
            except Exception:
                continue
            reqs.append(["regen", ["re"] + tree, draws])
            exp.append((k, v, encode.tostr(rq)))
            info.append((p, pol))
    res = model.run_batch(reqs)
    bad = 0
    for r, (k, v, rq), (p, pol) in zip(res, exp, info):
        ctx.count("corr_cases")
        if isinstance(r, str):
            good = False
        elif k == "ok":
            good = r[0] == "ok" and r[1][0] == encode.tostr(encode.enc_str(v)) and r[1][1] == rq and r[1][2] == "0"
        else:
            good = r[0] == "exc" and r[1] == type(v).__name__
        if not good:
            bad += 1
            if bad <= 10:
                ctx.breakage("correspondence", "regex generator view (requests, string) differs between model and code",
                             pattern=p, policy=pol, detail=f"real {k} {v!r}\nmodel {sexp.dumps(r)[:400] if not isinstance(r, str) else r}")
    ctx.cov["corr_disagreements"] = bad
    match_correspondence(ctx, [p for p, u in pats if u is None])
    cap_family(ctx)
    negated_class_through_fake(ctx)
    many_patterns_one_process(ctx)
    reuse_family(ctx, [p for p, u in pats if u is None and anchors_only_at_ends(p)])
    schema_path(ctx, [p for p, u in pats if u is None and anchors_only_at_ends(p)])
    for p, u in pats[:6]:
        ctx.sample({"pattern": p, "unsupported": u})


def cap_family(ctx):
    """the public `max_repeat` parameter: generators built with caps below, at and above every explicit repeat bound of the
    pattern — among them bounds that coincide with small integers the parser also uses for other purposes (opcode numbers) —
    must still produce strings matching the entire pattern"""
    import random as _random
    from d42.generation import Random, RegexGenerator
    st = _random.getstate()
    try:
        for cap in (0, 1, 2, 5, 32, 44, 45, 64, 100, 300):
            g = RegexGenerator(Random(), max_repeat=cap)
            for n in list(range(0, 12)) + [31, 32, 33, 43, 44, 45, 46, 63, 64, 65, 99, 100, 101]:
                for pat in (r"a{0,%d}" % n, r"(?:ab){1,%d}c" % max(n, 1), r"x{%d}" % n, r"\d{%d,}" % n, r"[ab]{0,%d}?z" % n, r"(a|b){%d,%d}" % (n, n + 3)):
                    for k in range(3):
                        _random.seed(1000 * cap + 10 * n + k)
                        ctx.count("cap_family_cases")
                        try:
                            out = g.generate(pat)
                        except Exception as e:  # noqa: BLE001
                            ctx.violation("generator raised %s on a pattern from the supported grammar" % type(e).__name__,
                                          pattern=pat, max_repeat=cap, exception=safe_repr(e))
                            break
                        try:
                            ok = len(out) > 5000 or fullmatch(pat, out)
                        except _Timeout:
                            ok = True
                        if not ok:
                            ctx.violation("generated string does not match the entire pattern", pattern=pat, max_repeat=cap,
                                          generated=out[:200], length=len(out), python_seed=1000 * cap + 10 * n + k)
                            break
    finally:
        _random.setstate(st)


def reuse_family(ctx, patterns):
    """ONE long-lived generator (and the module-level one behind fake()) asked for many patterns in a row: supported
    ones interleaved with refused ones whose unsupported construct sits at the start, in the middle or at the very end
    (so that a refusal interrupts a half-built string), nested in groups / repeats / branches. Every string returned
    must match its own entire pattern, and every refusal must be a refusal again"""
    import random as _random
    from d42 import fake, schema
    from d42.generation import Random, RegexGenerator
    refused = [r"\s", r"[a-z]{3}\s", r"id-\d+(?=;)", r"(a)b\1", r"ab\S", r"x(?<=x)y", r"(?>ab)c", r"a*+b", r"(ab|c\D)z",
               r"(?:xy){2}\W", r"q{3}(?!r)", r"[0-9]{2}[\s]", r"(?P<n>ab)(?P=n)", r"abc(?=d)", r"a(b(c\s))", r"\w+\s\w+"]
    good = [r"^\d{4}$", r"[ab]{3}", r"(?:ab|cd)e", r"x{2,4}y", r"^\w-\d$", r"a?b+c*", r"[^a-y]{2}", r"(p|q)(r|s)"]
    good += [p for p in patterns[:ctx.n(10, 60)] if len(p) < 60]
    st = _random.getstate()
    try:
        _random.seed(90210)
        shared = RegexGenerator(Random())
        runs = [("one RegexGenerator instance", shared.generate),
                ("fake(schema.str.regex(p))", lambda p: fake(schema.str.regex(p)))]
        for label, gen in runs:
            for rnd_round in range(ctx.n(2, 6)):
                seq = []
                for g in good:
                    seq.append(ctx.rnd.choice(refused))
                    seq.append(g)
                    if ctx.rnd.random() < .3:
                        seq.append(ctx.rnd.choice(good))
                prev = None
                for p in seq:
                    ctx.count("reuse_family_calls")
                    try:
                        out = gen(p)
                    except Exception as e:  # noqa: BLE001
                        if p in good[:8]:
                            ctx.violation("generator raised %s on a supported pattern after other patterns were processed"
                                          % type(e).__name__, pattern=p, previous=prev, via=label, exception=safe_repr(e))
                        prev = p
                        continue
                    try:
                        ok = len(out) > 3000 or fullmatch(p, out)
                    except _Timeout:
                        ok = True
                    if not ok:
                        ctx.violation("generated string does not match the entire pattern (the generator had processed "
                                      "other patterns before)", pattern=p, previous=prev, generated=out[:200], via=label)
                        return
                    prev = p
    finally:
        _random.setstate(st)


def many_patterns_one_process(ctx):
    """anything the generator keeps between patterns (parse caches, per-node caches keyed by identity, alphabets built once):
    more than 200 DISTINCT patterns — most of them with negated classes whose excluded sets differ — through ONE generator
    object and through the module-level one, each generated under several candidate indexes; every string returned matches
    its own pattern. Also literal patterns produced by re.escape (punctuation, blanks, line breaks escaped with a backslash)."""
    import random as _random
    import re as _re
    from d42 import fake, schema
    from d42.generation import Random, RegexGenerator
    pats = []
    for i in range(120):
        a, b, c = chr(97 + i % 26), chr(65 + (i * 7) % 26), str(i % 10)
        pats += ["[^%s%s%s]{2}" % (a, b, c), "x[^\\d%s]y" % a if i % 3 == 0 else "[^%s-%s_]" % (a, chr(min(122, ord(a) + 3))), "%s[%s%s]%d" % (a, b, c, i)]
    for lit in ("a\nb", "line1\nline2", " \t ", "a.b*c", "(x)[y]{z}", "1+1=2?", "tab\there", "q\r\nw", "^$|\\", "é☃", "#comment ~ `tick`", "a-b_c", "\x0b\x0c"):
        pats.append(_re.escape(lit))
    st = _random.getstate()
    try:
        _random.seed(4242)
        shared = RegexGenerator(Random())
        for via, gen in (("one RegexGenerator instance", shared.generate), ("fake(schema.str.regex(p))", lambda p: fake(schema.str.regex(p)))):
            for rnd_round in range(2):
                for p in pats:
                    ctx.count("many_patterns_calls")
                    try:
                        out = gen(p)
                    except Exception:  # noqa: BLE001  (a loud refusal is allowed)
                        continue
                    try:
                        ok = fullmatch(p, out)
                    except _Timeout:
                        continue
                    if not ok:
                        ctx.violation("generated string does not match the entire pattern (many distinct patterns through one "
                                      "generator)", pattern=p, generated=out[:100], via=via, negated_class="[^" in p and "\\" not in p and False)
                        return
        # the same under scripted draws: every 5th candidate index, through the module-level generator
        for p in pats[::3]:
            try:
                s = schema.str.regex(p)
            except Exception:  # noqa: BLE001
                continue
            for k in (0, 1, 5, 17, 40, 63, 90):
                (kind, v), log = SR.generate_public(s, SR.make_policy("idx:%d" % k, ctx.rnd))
                if kind == "ok":
                    try:
                        if not fullmatch(p, v):
                            ctx.violation("generated string does not match the entire pattern", pattern=p, generated=v[:100],
                                          policy="idx:%d" % k, via="fake(schema.str.regex(p))")
                            return
                    except _Timeout:
                        pass
    finally:
        _random.setstate(st)


def negated_class_through_fake(ctx):
    """negated classes built from categories / ranges / literals through the PUBLIC path fake(schema.str.regex(p)) — the
    module-level generator as the package wires it — with EVERY candidate character chosen once (policy idx:k)"""
    from d42 import schema
    pats = [r"[^\w]", r"[^\w\d]", r"[^\w.]", r"[^\d]", r"[^a-zA-Z0-9]", r"[^\w ]{2}", r"x[^\w-]y", r"[^_\W]" if False else r"[^\d_]", r"[^ -/]"]
    # several DIFFERENT negated classes in one pattern (each has its own complement), next to each other, repeated, in branches
    pats += [r"[^a][^b]", r"[^a][^b][^c]", r"[^x]{2}[^y]{2}", r"[^0-9][^a-z]", r"([^a]|[^b])[^c]", r"[^ab][^bc][^ca]", r"[^a]*[^b]+[^c]?",
             r"[^\d][^\w]", r"(?:[^a][^b]){2}"]
    for p in pats:
        try:
            s = schema.str.regex(p)
        except Exception:  # noqa: BLE001
            continue
        for k in range(0, 100):
          for via, genf in (("fake(schema.str.regex(p))", SR.generate_public), ("Generator(random, RegexGenerator(random))", SR.generate)):
            (kind, v), log = genf(s, SR.make_policy("idx:%d" % k, ctx.rnd))
            ctx.count("negated_class_fake_cases")
            if kind != "ok":
                continue
            try:
                ok = fullmatch(p, v) and not validate(s, v).has_errors()
            except _Timeout:
                continue
            if not ok:
                ctx.violation("schema.str.regex(p) generated a string its own validation rejects / that does not match the entire "
                              "pattern", pattern=p, generated=v, policy="idx:%d" % k, via="fake(schema.str.regex(p))", negated_class=True)
                break


def schema_path(ctx, patterns):
    """`schema.str.regex(p)` generates strings its own validation accepts: the same patterns through fake()'s visitor (not the
    RegexGenerator alone), under every draw policy — patterns that can match the empty string included"""
    from d42 import schema
    nullable = [r"^(ab)?$", r"^a*$", r"^\d{0,2}$", r"^(|q)$", r"^(?P<sign>[+-])?\d*$", r"(x|)(y|)", r"^(?:ab|)*$", r"^\w?$"]
    for p in nullable + patterns[: ctx.n(40, 300)]:
        try:
            s = schema.str.regex(p)
        except Exception:  # noqa: BLE001
            continue
        for pol in ("lo", "hi", "alt", "alt2", "rnd", "small"):
            (k, v), log = SR.generate(s, SR.make_policy(pol, ctx.rnd))
            ctx.count("schema_path_cases")
            if k != "ok":
                continue
            try:
                bad = validate(s, v).has_errors()
                full = len(v) > 3000 or fullmatch(p, v)
            except _Timeout:
                continue
            except Exception as e:  # noqa: BLE001
                ctx.violation("validate raised on a generated string", pattern=p, generated=v, exception=safe_repr(e))
                continue
            if bad or not full:
                ctx.violation("schema.str.regex(p) generated a string its own validation rejects" if bad else
                              "generated string does not match the entire pattern", pattern=p, generated=v[:200], policy=pol, via="fake(schema.str.regex(p))")
                break


def _plain_anchors(items, sre):
    """only ^ $ \\A \\Z (an anchor that matches the empty string at the ends), no \\b / \\B, nothing unsupported"""
    for op, av in items:
        if op == sre.AT and av not in (sre.AT_BEGINNING, sre.AT_END, sre.AT_BEGINNING_STRING, sre.AT_END_STRING):
            return False
        if op == sre.SUBPATTERN and not _plain_anchors(av[3], sre):
            return False
        if op in (sre.MAX_REPEAT, sre.MIN_REPEAT) and not _plain_anchors(av[2], sre):
            return False
        if op == sre.BRANCH and not all(_plain_anchors(a, sre) for a in av[1]):
            return False
    return True


def match_correspondence(ctx, patterns):
    """the declarative language `Matches` (through the matcher proved to decide it, matchSeqB_iff) against CPython's
    re.fullmatch, on short strings: matches produced by the real generator with a small repeat cap, their one-step
    mutations, and random strings over the pattern's own characters plus a few strangers (non-ASCII digits and letters)"""
    import sys
    from d42.generation import RegexGenerator, Random
    sre = sys.modules.get("re._parser") or __import__("sre_parse")
    r = ctx.rnd
    strangers = ["\n", "_", "0", "9", "a", "Z", "é", "٣", "५", " ", "-", "~"]
    reqs, exp, info = [], [], []
    for p in patterns:
        try:
            parsed = sre.parse(p)
            tree = encode.enc_re_items(parsed)
        except Exception:  # noqa: BLE001
            continue
        if "unsup" in sexp.dumps(tree) or not _plain_anchors(parsed, sre) or len(sexp.dumps(tree)) > 400:
            ctx.count("match_skipped_pattern")
            continue
        alphabet = sorted(set(ch for ch in p if ch.isalnum() or ch in "_- ")) or ["a"]
        cands = set()
        g = RegexGenerator(Random(), max_repeat=2)
        for _ in range(4):
            try:
                cands.add(g.generate(p))
            except Exception:  # noqa: BLE001
                pass
        for base in list(cands):
            if not base:
                continue
            i = r.randrange(len(base))
            cands.update([base[:i] + base[i + 1:], base[:i] + base[i] + base[i:], base[:i] + r.choice(alphabet + strangers) + base[i + 1:],
                          base + r.choice(alphabet + strangers), r.choice(alphabet + strangers) + base])
        for _ in range(3):
            cands.add("".join(r.choice(alphabet + strangers) for _ in range(r.randint(0, 5))))
        for sv in cands:
            if len(sv) > 8:
                ctx.count("match_skipped_long")
                continue
            try:
                want = fullmatch(p, sv)
            except _Timeout:
                continue
            nonascii = sorted(set(ch for ch in sv if ord(ch) >= 128))
            ds = [ord(ch) for ch in nonascii if re.fullmatch(r"\d", ch)]
            ws = [ord(ch) for ch in nonascii if re.fullmatch(r"\w", ch)]
            reqs.append(["rxmatch", ["re"] + tree, encode.enc_str(sv), ["digits"] + ds, ["words"] + ws])
            exp.append("1" if want else "0")
            info.append((p, sv))
    res = model.run_batch(reqs)
    bad = 0
    for got, want, (p, sv) in zip(res, exp, info):
        ctx.count("match_corr_cases")
        ctx.count("match_corr_accepting" if want == "1" else "match_corr_rejecting")
        if got != want:
            bad += 1
            if bad <= 10:
                ctx.breakage("correspondence", "the matcher that decides `Matches` and re.fullmatch disagree: the language the "
                             "theorems talk about is not Python's", pattern=p, string=sv, fullmatch=want, model=str(got))
    ctx.cov["match_corr_disagreements"] = bad


def replay(path):
    print(open(path).read()[:6000])
    return 0


MANIFEST = dict(
    category="proof",
    technique="Lean 4 theorem genSeq_sound (structural induction on the regex tree, all draw outcomes) + (requests, string) "
              "correspondence",
    text="Props/C09.lean: whatever the draws, a string returned by the model generator is in the language of the pattern "
         "tree (genSeq_sound; Matches / MatchesSeq / MatchesAlt), unsupported opcodes on the generation path raise "
         "ValueError and nothing else is raised (genRe_unsup, genSeq_error_kind), open-ended repeats draw their count from "
         "[min, max(cap, min)] (rep_request). Tie: the model's request sequence and string are compared with the real "
         "RegexGenerator under scripted draws, on trees produced by CPython's own parser; search: re.fullmatch on the real "
         "code."
         " Source pins: the normalised text of every anchor file is compared with the text the model was last validated against; a changed file is a broken obligation (no-failing-input-found unless the search finds an input).",
    note="Trusted: Lean kernel + standard axioms, sre_parse -> Re conversion, re.fullmatch semantics, hand model (sampling tie).")
