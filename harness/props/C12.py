"""C12 — substitution fails only with SubstitutionError and is idempotent."""
from ..common import safe_repr
from .. import conforms, gen_value, runner, scripted_random as SR, substcorr
from ..common import d42  # noqa: F401
from d42 import substitute, validate
from d42.substitution.errors import SubstitutionError

MODULE = "D42.Props.C12All"
THEOREMS = ["subst_error_kind", "fromNativeS_error_kind", "subst_any_nonempty", "subst_listE_exact",
            "subst_idempotent_scalar", "subst_idempotent", "subst_result_subAccepts", "subst_fromNative_self",
            "subst_idempotent_nan_counterexample",
            "fromNative_eq_extracted", "subst_scalar_eq_extracted",
            "extracted_scalar_subst_spec"]
FILES = ["D42/Model/Data.lean", "D42/Model/Validate.lean", "D42/Model/Subst.lean", "D42/Props/C14.lean", "D42/Props/C12.lean", "D42/Props/C05.lean", "D42/Props/C12Idem.lean",
         "D42/Model/CheckProg.lean", "D42/Model/SubstProg.lean", "D42/Gen/SubstProg.lean", "D42/Props/SubstProg.lean", "D42/Props/C12All.lean"]

EVIDENCE = dict(
    level="proof",
    checker_cmd="lake build D42.Props.C12 d42model && lake env lean <#print axioms audit>",
    trusted=["Lean kernel; standard axioms", "substitution model tied to the code by comparing the resulting schema (structurally) "
             "or the exception class on this run's cases"],
    rule="(schema, value) with values: conforming, partial dicts at any depth, perturbed, with `...` placeholders in supported "
         "and unsupported positions, members that cannot be converted, extra keys; non-trivial = value is not the bare witness; thorough tier adds the WHOLE small scope of substitutions (5.2k schemas x 57 plain / partial / `...`-bearing values)")


def oracle(ctx, cases):
    for c in cases:
        ctx.case((safe_repr(c.schema), safe_repr(c.value)), c.tag != "witness")
        ctx.count("tag:" + c.tag)
        info = dict(schema=safe_repr(c.schema), value=safe_repr(c.value), tag=c.tag, py_schema=c.schema, py_value=c.value)
        if c.kind == "exc":
            ctx.count("outcome:" + type(c.result).__name__)
            if not isinstance(c.result, SubstitutionError):
                ctx.violation("substitute raised %s (not SubstitutionError)" % type(c.result).__name__,
                              exception=safe_repr(c.result), **info)
            continue
        ctx.count("outcome:ok")
        r = c.result
        plain = gen_value.is_plain(c.value)
        if not plain:
            # whatever the value (placeholders included): a schema that was RETURNED is a usable object — printing it,
            # validating against it and generating from it do not trip over its own structure
            for what, f in (("repr", lambda: safe_repr(r)), ("validate", lambda: [validate(r, p) for p in (None, 1, "a", [], [1], [1, 2, 3], {}, {"a": 1})]),
                            ("fake", lambda: SR.generate(r, SR.make_policy("lo", ctx.rnd)))):
                try:
                    out = f()
                    if what == "fake" and out[0][0] == "exc" and isinstance(out[0][1], (AttributeError, TypeError, KeyError, IndexError)):
                        raise out[0][1]
                except (AttributeError, TypeError, KeyError, IndexError) as e:
                    try:
                        rtxt = safe_repr(r)
                    except Exception:  # noqa: BLE001
                        rtxt = "<unprintable>"
                    ctx.violation("substitution returned a schema that cannot be used: %s raises %s" % (what, type(e).__name__),
                                  result=rtxt, exception=safe_repr(e)[:200], **info)
                    break
                except Exception:  # noqa: BLE001
                    pass
        # usable: can be generated from, and what it generates it accepts
        if plain and not gen_value.has_nan(c.value):
            # only when the original is hereditarily satisfiable by construction (it is: generator) and the witness checks
            for pol in ("lo", "hi", "rnd"):
                (k, v), log = SR.generate(r, SR.make_policy(pol, ctx.rnd))
                if k == "exc":
                    ctx.violation("the result of substitution cannot be generated from (%s)" % type(v).__name__,
                                  result=safe_repr(r), policy=pol, exception=safe_repr(v), py_result=r, **info)
                    break
                try:
                    rejects = validate(r, v).has_errors()
                except Exception:   # noqa: BLE001 — validate raising is C08's business
                    ctx.count("validate_raised")
                    rejects = False
                if rejects:
                    ctx.violation("the result of substitution rejects what it generates", result=safe_repr(r),
                                  generated=safe_repr(v), py_result=r, **info)
                    break
            # … and through the plain public fake() (no scripted clock / uuid / random stand-ins in between)
            import random as _random
            _st = _random.getstate()
            try:
                from d42 import fake as _fake
                gv = _fake(r)
                if validate(r, gv).has_errors():
                    ctx.violation("the result of substitution rejects what it generates", result=safe_repr(r), generated=safe_repr(gv),
                                  via="d42.fake", py_result=r, **info)
            except Exception as e:  # noqa: BLE001
                if not isinstance(e, (ValueError, IndexError)):      # K2-K11 families are C01's business
                    ctx.violation("the result of substitution cannot be generated from (%s)" % type(e).__name__, result=safe_repr(r),
                                  via="d42.fake", exception=safe_repr(e), py_result=r, **info)
            finally:
                _random.setstate(_st)
            # idempotent
            try:
                r2 = substitute(r, c.value)
                if not (r2 == r) or safe_repr(r2) != safe_repr(r):
                    ctx.violation("substituting the same plain value again gives a different schema",
                                  first=safe_repr(r), second=safe_repr(r2), **info)
            except Exception as e:  # noqa: BLE001
                ctx.violation("substituting the same plain value again raises " + type(e).__name__, first=safe_repr(r), **info)


def run(ctx):
    from .. import extract_substitutor
    ok, msg = extract_substitutor.run()
    if not ok:
        ctx.breakage("translation", "substitutor / from_native extraction failed (d42/utils/_from_native.py or the scalar "
                     "visit_* methods of d42/substitution/_substitutor.py no longer consist of the recognised idioms): " + msg)
    runner.prove(ctx, MODULE, THEOREMS, FILES)
    cases = substcorr.batch(ctx, ctx.n(90, 700), customs=True) + substcorr.list_form_cases(ctx) + substcorr.open_dict_any_cases(ctx, ctx.n(150, 1500)) + substcorr.untyped_pair_cases(ctx) + substcorr.untyped_edge_cases(ctx) + substcorr.contains_scan_cases(ctx) + substcorr.untyped_zoo_cases(ctx) + substcorr.defaulting_dict_subst_cases(ctx) + substcorr.subclass_and_degenerate_cases(ctx) + substcorr.special_key_subst_cases(ctx) + substcorr.list_ellipsis_position_cases(ctx) + substcorr.relaxed_marker_position_cases(ctx) + substcorr.list_window_cases(ctx) + substcorr.float_precision_cases(ctx) + substcorr.many_errors_cases(ctx) + substcorr.list_partial_dict_cases(ctx)
    for c in cases:
        substcorr.run_real(c)
    ctx.count("skipped_unencodable", sum(1 for c in cases if c.skip))
    oracle(ctx, cases)
    from .. import limits
    limits.recursion_probe(ctx, "C12")
    dis = substcorr.compare(cases, ctx)
    for c, detail in dis[:10]:
        ctx.breakage("correspondence", "substitution outcome differs between model and code",
                     schema=safe_repr(c.schema), value=safe_repr(c.value), detail=detail, request=c.req)
    ctx.cov["corr_disagreements"] = len(dis)
    if not ctx.quick():
        # thorough: the whole small scope of substitutions (every schema of a small grammar to depth 2 x plain, partial and
        # `...`-bearing values), outcome compared with the model, exception kind / usability / idempotence on the real code
        from .. import smallscope
        smallscope.subst_scope(ctx, oracle=oracle)
    for c in cases[:200:40]:
        ctx.sample({"schema": safe_repr(c.schema), "value": safe_repr(c.value), "tag": c.tag,
                    "outcome": safe_repr(c.result)[:300]})


def replay(path):
    print(open(path).read()[:6000])
    return 0


MANIFEST = dict(
    category="proof",
    technique="Lean 4 theorems subst_error_kind / subst_idempotent / subst_result_subAccepts over the substitution model + "
              "outcome correspondence"
              " + from_native / substitutor translator",
    text="Theorems: the substitution model never fails with anything but SubstitutionError, for every schema and every "
         "value (subst_error_kind); a successful result is a schema that substitution-accepts the value "
         "(subst_result_subAccepts) and substituting the same value again returns it unchanged (subst_idempotent; "
         "subst_fromNative_self for fresh schemas); a union result is never empty (subst_any_nonempty). Tie: the resulting "
         "schema (structural encoding) or exception class of model and code compared on generated cases; search: exception "
         "type, fake(S%v) under scripted draws validates, (S%v)%v == S%v on the real code."
         " Translator: the isinstance ladder of from_native and the three-statement idiom of every scalar Substitutor.visit_* are extracted (Gen/SubstProg.lean); fromNative_eq_extracted and subst_scalar_eq_extracted prove the hand model equal to them for every input. Source pins: the normalised text of every anchor file is compared with the text the model was last validated against; a changed file is a broken obligation (no-failing-input-found unless the search finds an input).",
    note="Partial under NoNaN (K6) for idempotence. Trusted: Lean kernel + standard axioms, hand model (sampling tie), "
         "codec.")
