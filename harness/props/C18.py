"""C18 — rollout is the inverse of flattening dotted keys."""
from ..common import safe_repr
from .. import encode, model, runner, sexp
from ..common import d42  # noqa: F401
from d42 import optional
from d42.utils import rollout

MODULE = "D42.Props.C18Perm"
THEOREMS = ["rollout_flatten", "rollout_id", "rollout_flatten_ell", "sepSafe_of_single_char", "sepSafe_counterexample",
            "splitFirst_some", "splitFirst_none_iff", "rolloutF_flatten", "rolloutF_id",
            "rollout_flatten_perm", "rollout_flatten_perm_ell", "REquiv_refl", "REquiv_symm", "rollout_perm_example"]
FILES = ["D42/Model/Rollout.lean", "D42/Props/C18.lean", "D42/Props/C18Perm.lean"]

EVIDENCE = dict(
    level="proof",
    checker_cmd="lake build D42.Props.C18Perm d42model && lake env lean <#print axioms audit>",
    trusted=["Lean kernel; standard axioms", "rollout model tied to the code by comparing the produced mapping (incl. key order) on this run"],
    rule="nested mappings depth<=4, any fan-out, leaf payloads of many kinds, optional at leaves, optional top-level `...: ...`, "
         "separators '.', '/', '->', '__', '::', 'aa' with SepSafe keys, flat keys shuffled; non-trivial = depth >= 2")

SEPS = [".", "/", "->", "__", "::", "aa"]
KEY_CHARS = "abcxyz019_-> /:."


class Leaf:
    def __init__(self, n):
        self.n = n

    def __repr__(self):
        return "Leaf(%d)" % self.n


def sep_safe(key, sep):
    """for every continuation u the first occurrence of sep in key+sep+u is at len(key):
    sep must not occur in key+sep anywhere before position len(key)"""
    return (key + sep).find(sep) == len(key)


def gen_key(rnd, sep):
    while True:
        k = "".join(rnd.choice(KEY_CHARS) for _ in range(rnd.randint(0, 4)))
        if sep not in k and sep_safe(k, sep):
            return k


def gen_tree(rnd, sep, depth, counter):
    n = rnd.randint(1, 3)
    out = {}
    while len(out) < n:
        k = gen_key(rnd, sep)
        if k in out:
            continue
        if depth > 1 and rnd.random() < .5:
            out[k] = gen_tree(rnd, sep, depth - 1, counter)
        else:
            counter[0] += 1
            payload = rnd.choice([Leaf(counter[0]), counter[0], None, "s", [1, 2], (1,), 3.5, ..., ..., False, 0, "", [], {}.keys(),
                                  float("inf"), b"", frozenset()])
            if rnd.random() < .3:
                out[optional(k)] = payload
            else:
                out[k] = payload
    return out


def flatten(tree, sep, prefix=None):
    out = []
    for k, v in tree.items():
        opt = isinstance(k, optional)
        name = k.key if opt else k
        full = name if prefix is None else prefix + sep + name
        if isinstance(v, dict):
            out += flatten(v, sep, full)
        else:
            out.append((optional(full) if opt else full, v))
    return out


def equal_mapping(a, b):
    if isinstance(a, dict) and isinstance(b, dict):
        if set(map(keyid, a)) != set(map(keyid, b)) or len(a) != len(b):
            return False
        bb = {keyid(k): v for k, v in b.items()}
        return all(equal_mapping(v, bb[keyid(k)]) for k, v in a.items())
    return a is b or (type(a) is type(b) and not isinstance(a, Leaf) and a == b)


def keyid(k):
    if k is Ellipsis:
        return ("ell",)
    if isinstance(k, optional):
        return ("opt", k.key)
    return ("key", k)


def enc_rkey(k, I):
    if k is Ellipsis:
        return "E"
    if isinstance(k, optional):
        return ["rs", encode.enc_str(k.key), 1] if isinstance(k.key, str) else ["ro", I.okey(k)]
    if isinstance(k, str):
        return ["rs", encode.enc_str(k), 0]
    return ["ro", I.okey(k)]


def enc_rval(v, I):
    if v is Ellipsis:
        return "E"
    if isinstance(v, dict):
        return ["rd"] + [[enc_rkey(k, I), enc_rval(x, I)] for k, x in v.items()]
    return ["leaf", I.other(v)]


def depth_of(t):
    return 1 + max([depth_of(v) for v in t.values() if isinstance(v, dict)] or [0])


def odd_keys(ctx):
    """separator-free keys made of characters that an escaping / quoting / normalising layer in front of rollout could treat
    specially: backslashes (also right before the separator once flattened), NULs, quotes, brackets, %, {}, whitespace,
    non-ASCII, keys equal to Python literals — at every depth, optional or not"""
    odd = ["C:\\", "a\\", "\\", "\\\\", "\x00", "k\x00", "'", '"', "[0]", "{}", "%s", " ", "\t", "é", "None", "0", "...", "a b", "a\\b"]
    for sep in (".", "__", "::", "/"):
        for k1 in odd:
            if sep in k1 or not sep_safe(k1, sep):
                continue
            for k2 in ("x", k1, odd[(odd.index(k1) + 3) % len(odd)]):
                if sep in k2 or not sep_safe(k2, sep):
                    continue
                leafy = [{"user" + sep + "id": 1}, {"a" + sep + "b": {"c" + sep + "d": 2}}]
                for tree in ({k1: {k2: 1, "y": 2}}, {"p": {k1: {k2: None}}, "q": 3}, {k1: {optional(k2): "v"}}, {k1: 5, "z": {k1: 6}},
                             {"rows": {k2: leafy}}, {k1: ({"x" + sep + "y": 1},), "t": [[{"m" + sep + "n": 0}]]}, {"w": {optional(k2): leafy}}):
                    ctx.count("odd_key_trees")
                    flat_d = dict(flatten(tree, sep))
                    try:
                        got = rollout(flat_d, separator=sep)
                    except Exception as e:  # noqa: BLE001
                        ctx.violation("rollout raised %s on a flattened mapping" % type(e).__name__, separator=sep, flat=safe_repr(flat_d))
                        continue
                    if not equal_mapping(got, tree):
                        ctx.violation("rollout(flatten(m)) != m", separator=sep, nested=safe_repr(tree), flat=safe_repr(flat_d), got=safe_repr(got))
                        return
                    same = rollout(dict(tree), separator=sep)
                    if not equal_mapping(same, tree):
                        ctx.violation("rollout of an already nested mapping is not the identity", separator=sep, nested=safe_repr(tree),
                                      got=safe_repr(same))
                        return


def mapping_like_leaves(ctx):
    """leaf values that LOOK like mappings or nodes without being dicts — d42 schemas of every kind (dict schemas bare, with
    keys, relaxed, with optional keys, nested), read-only / user / chained mappings, objects with keys()/items() — at every
    depth, optional or not: a leaf comes back as the very object that went in"""
    import collections
    import types as pytypes
    from d42 import schema

    class Rec:
        def __init__(self, d):
            self.d = d

        def keys(self):
            return self.d.keys()

        def items(self):
            return self.d.items()

        def __getitem__(self, k):
            return self.d[k]

        def __iter__(self):
            return iter(self.d)

        def __len__(self):
            return len(self.d)

    def leaves(sep):
        return [schema.dict, schema.dict({}), schema.dict({"id": schema.int, optional("name"): schema.str}),
                schema.dict({"a" + sep + "b": schema.int}), schema.dict({"id": schema.int, ...: ...}),
                schema.dict({"n": schema.dict({optional("m"): schema.none})}), schema.list(schema.dict({"k": schema.int})),
                schema.any(schema.dict({"k": schema.int}), schema.none), schema.int, schema.alias("A", schema.dict({"k": schema.int})),
                pytypes.MappingProxyType({"a" + sep + "b": 1}), collections.UserDict({"a" + sep + "b": 1}),
                collections.ChainMap({"a" + sep + "b": 1}, {"c": 2}), Rec({"a" + sep + "b": 1}), Rec({}), optional("k"), {}.keys(), {"a": 1}.items()]
    for sep in (".", "__"):
        for i, leaf in enumerate(leaves(sep)):
            for tree in ({"user": leaf}, {"a": {"b": leaf, "c": 1}}, {"a": {optional("b"): leaf}}, {optional("top"): leaf, "z": {"y": {"x": leaf}}},
                         {"a": {"b": leaf}, ...: ...}):
                ctx.count("mapping_like_leaf_trees")
                flat_d = dict(flatten(tree, sep))
                for what, arg in (("rollout(flatten(m))", flat_d), ("rollout of an already nested mapping", dict(tree))):
                    try:
                        got = rollout(arg, separator=sep)
                    except Exception as e:  # noqa: BLE001
                        ctx.violation("%s raised %s" % (what, type(e).__name__), separator=sep, nested=safe_repr(tree), leaf_kind=type(leaf).__name__)
                        return
                    if not identical_leaves(got, tree):
                        ctx.violation("%s does not give back the mapping with its leaf values untouched" % what, separator=sep,
                                      nested=safe_repr(tree), got=safe_repr(got), leaf_kind=type(leaf).__name__)
                        return


def identical_leaves(a, b):
    """same nesting, same keys (optional markers included), and every leaf the very same object"""
    if type(b) is dict:
        if type(a) is not dict or len(a) != len(b) or set(map(keyid, a)) != set(map(keyid, b)):
            return False
        bb = {keyid(k): v for k, v in b.items()}
        return all(identical_leaves(v, bb[keyid(k)]) for k, v in a.items())
    return a is b


def stale_state(ctx):
    """the round trip and the identity must hold whatever rollout was asked before: calls that FAIL below the top level
    (a non-str key, a `...` key with another value, a leaf reused as a node — at depth 1, 2, 3) on the very mapping object
    that is then repaired and rolled out again, and on fresh mappings afterwards; many calls in a row"""
    def attempt(m, sep):
        try:
            return ("ok", rollout(m, separator=sep))
        except Exception as e:  # noqa: BLE001
            return ("raise", type(e).__name__)
    for sep in (".", "__", "::"):
        def mk():
            return {"a": {"b": {"c" + sep + "d": 1, "e": optional("x")}}, "f" + sep + "g": 2, "h": {"i" + sep + "j": {"k": 3}}}
        want = {"a": {"b": {"c": {"d": 1}, "e": optional("x")}}, "f": {"g": 2}, "h": {"i": {"j": {"k": 3}}}}
        nested = {"a": {"b": {"c": 1}}, "d": {"e": 2}}
        for path in (("a",), ("a", "b"), ("h",), ("h", "i" + sep + "j")):
            for badk, badv in ((5, 1), (..., 1), (None, 1), ((1, 2), 1)):
                m = mk()
                t = m
                for k in path:
                    t = t[k]
                first = attempt(m, sep)
                t[badk] = badv
                mid = attempt(m, sep)
                del t[badk]
                again = attempt(m, sep)
                fresh = attempt(mk(), sep)
                ident = attempt(dict(nested), sep)
                ctx.count("stale_state_sequences")
                info = dict(separator=sep, mapping=safe_repr(mk()), broken_at=safe_repr(path), bad_entry=safe_repr((badk, badv)),
                            while_broken=safe_repr(mid)[:200])
                for what, got in (("the same mapping after it was repaired", again), ("a fresh equal mapping", fresh)):
                    if first[0] != "ok" or got[0] != "ok" or not equal_mapping(got[1], want):
                        ctx.violation("rollout(flatten(m)) != m after an earlier rollout call failed (" + what + ")",
                                      first=safe_repr(first)[:300], got=safe_repr(got)[:300], **info)
                if ident[0] != "ok" or not equal_mapping(ident[1], nested):
                    ctx.violation("rollout of an already nested mapping is not the identity after an earlier call failed",
                                  got=safe_repr(ident)[:300], **info)
        m = mk()
        for i in range(12):       # the same object many times
            got = attempt(m, sep)
            if got[0] != "ok" or not equal_mapping(got[1], want):
                ctx.violation("rollout(flatten(m)) != m on the %d-th call with the same mapping object" % (i + 1),
                              separator=sep, mapping=safe_repr(mk()), got=safe_repr(got)[:300])
                break


def run(ctx):
    runner.prove(ctx, MODULE, THEOREMS, FILES)
    reqs, exp, info = [], [], []
    for _ in range(ctx.n(600, 6000)):
        sep = ctx.rnd.choice(SEPS)
        counter = [0]
        tree = gen_tree(ctx.rnd, sep, ctx.rnd.randint(1, 4), counter)
        ctx.case((sep, safe_repr(tree)), depth_of(tree) >= 2)
        ctx.count("sep:" + sep)
        flat = flatten(tree, sep)
        ctx.rnd.shuffle(flat)
        top_ell = ctx.rnd.random() < .25
        if top_ell:
            flat.insert(ctx.rnd.randint(0, len(flat)), (..., ...))
        flat_d = dict(flat)
        want = dict(tree)
        if top_ell:
            want[...] = ...
        try:
            got = rollout(flat_d, separator=sep) if sep != "." or ctx.rnd.random() < .5 else rollout(flat_d)
        except Exception as e:  # noqa: BLE001
            ctx.violation("rollout raised %s on a flattened mapping" % type(e).__name__, separator=sep, flat=safe_repr(flat_d))
            got = None
        if got is not None and not equal_mapping(got, want):
            ctx.violation("rollout(flatten(m)) != m", separator=sep, nested=safe_repr(want), flat=safe_repr(flat_d), got=safe_repr(got))
        # identity on an already nested mapping without separators
        try:
            same = rollout(dict(want), separator=sep)
            if not equal_mapping(same, want):
                ctx.violation("rollout of an already nested mapping is not the identity", separator=sep, nested=safe_repr(want),
                              got=safe_repr(same))
        except Exception as e:  # noqa: BLE001
            ctx.violation("rollout raised %s on a nested mapping" % type(e).__name__, separator=sep, nested=safe_repr(want))
        I = encode.Interner()
        reqs.append(["rollout", encode.enc_str(sep), enc_rval(flat_d, I)])
        exp.append(None if got is None else encode.tostr(["ok", enc_rval(got, I)]))
        info.append((sep, flat_d))
    # separator-free keys that are NOT SepSafe (only possible with multi-character separators): K9 family
    for tree, sep in (({"x:": {"y": 1}}, "::"), ({"a_": {"b": 1, "_c": 2}}, "__"), ({"xa": {"a": 1}}, "aa")):
        flat_d = dict(flatten(tree, sep))
        ctx.count("sep_unsafe_probes")
        try:
            got = rollout(flat_d, separator=sep)
            if not equal_mapping(got, tree):
                ctx.violation("rollout(flatten(m)) != m", separator=sep, nested=safe_repr(tree), flat=safe_repr(flat_d), got=safe_repr(got),
                              sep_unsafe=True)
        except Exception as e:  # noqa: BLE001
            ctx.violation("rollout raised " + type(e).__name__, separator=sep, flat=safe_repr(flat_d), sep_unsafe=True)
    # malformed stream: non-str keys, `...` with a non-`...` value, a leaf that is later used as a node
    for flat_d, sep in (({1: 2}, "."), ({...: 1}, "."), ({"a": 1, "a.b": 2}, "."), ({"a.b": 1, "a": 2}, "."), ({"a..b": 1}, ".")):
        I = encode.Interner()
        try:
            got = ["ok", enc_rval(rollout(dict(flat_d), separator=sep), I)]
        except Exception as e:  # noqa: BLE001
            got = ["exc", type(e).__name__]
        reqs.append(["rollout", encode.enc_str(sep), enc_rval(flat_d, I)])
        exp.append(encode.tostr(got))
        info.append((sep, flat_d))
    stale_state(ctx)
    odd_keys(ctx)
    mapping_like_leaves(ctx)
    res = model.run_batch(reqs)
    bad = 0
    for r, e, (sep, flat_d) in zip(res, exp, info):
        if e is None:
            continue
        ctx.count("corr_cases")
        if r != e:
            bad += 1
            if bad <= 10:
                ctx.breakage("correspondence", "rollout result differs between model and code", separator=sep, flat=safe_repr(flat_d),
                             detail=f"real {sexp.dumps(e)[:400]}\nmodel {sexp.dumps(r)[:400] if not isinstance(r, str) else r}")
    ctx.cov["corr_disagreements"] = bad
    ctx.sample({"separator": info[0][0], "flat": safe_repr(info[0][1])})


def replay(path):
    print(open(path).read()[:6000])
    return 0


MANIFEST = dict(
    category="proof",
    technique="Lean 4 theorems rollout_flatten / rollout_flatten_perm (any order of the flat keys) / rollout_id about the "
              "rollout model + mapping correspondence + round-trip search with shuffled keys",
    text="Props/C18.lean: rollout of the depth-first flattening of any well-formed nested mapping gives the mapping back, "
         "optional markers on the same leaves, with or without a top-level ...: ... entry (rollout_flatten, "
         "rollout_flatten_ell; fuel shown sufficient), rollout of a separator-free mapping is the identity (rollout_id), a "
         "single-character separator absent from the keys is SepSafe. Props/C18Perm.lean: for EVERY ordering of the flat "
         "keys rollout succeeds and returns a mapping equal as a mapping at every level (rollout_flatten_perm, _perm_ell; "
         "REquiv is reflexive and symmetric on mappings with distinct keys). Tie: the mapping produced by model and code "
         "(incl. insertion order) compared on shuffled flattenings for six separators; search: rollout(flatten(m)) == m "
         "and identity on the real code."
         " Source pins: the normalised text of every anchor file is compared with the text the model was last validated against; a changed file is a broken obligation (no-failing-input-found unless the search finds an input).",
    note="Partial: SepSafe (K9: with a multi-character separator keys can overlap the boundary, 'x:::y' / '::' — flattening is not "
         "injective there). Trusted: Lean kernel + standard axioms, hand model (sampling tie), codec.")
