"""C13 — schema combinators mean what their parts mean."""
from ..common import safe_repr
from .. import encode, gen_value, model, rebuild, runner, sexp, valcases
from ..common import d42  # noqa: F401
from ..gen_schema import SchemaGen
from niltype import Nil
from d42 import optional, schema, validate
from d42.declaration import DeclarationError
from d42.utils import make_required

MODULE = "D42.Props.C13"
THEOREMS = ["union_meaning", "flattenAny_meaning", "anyCall_meaning", "alias_meaning", "add_meaning", "add_relaxed",
            "dict_meaning", "mergeFields_table", "makeRequired_meaning", "makeRequired_all_meaning",
            "makeRequired_unknown_key", "getItem_spec", "getItem_missing"]
FILES = ["D42/Model/Data.lean", "D42/Model/Validate.lean", "D42/Model/Decl.lean", "D42/Spec/Conforms.lean", "D42/Props/C13.lean"]

EVIDENCE = dict(
    level="proof",
    checker_cmd="lake build D42.Props.C13 d42model && lake env lean <#print axioms audit>",
    trusted=["Lean kernel; standard axioms", "combinator models (|, any-flattening, +, make_required, alias, []) tied to the code by "
             "structural comparison of the combined schema on this run's operands"],
    rule="operands: generated dict schemas with optional/required/relaxed keys and arbitrary alternatives; values: witnesses of "
         "either operand, of the combination, and perturbations; non-trivial = both operands have keys / alternatives")


def ok(s, v):
    try:
        return not validate(s, v).has_errors()
    except Exception:   # validate raising is C08's business; here it simply is "not accepted"
        return False


def ref_merged(d1, d2):
    """the dict schema with d1's keys overridden and extended by d2's, relaxed if either is (built independently)"""
    k1 = d1.props.get("keys")
    k2 = d2.props.get("keys")
    k1 = {} if k1 is Nil else dict(k1)
    k2 = {} if k2 is Nil else dict(k2)
    merged = {}
    for k, (v, o) in list(k1.items()) + list(k2.items()):
        if k is Ellipsis:
            continue
        merged[k] = (v, o)
    decl = {}
    for k, (v, o) in merged.items():
        decl[optional(k) if o else k] = v
    if ... in k1 or ... in k2:
        decl[...] = ...
    return schema.dict(decl)


def options_forwarded(ctx):
    """alias / union / + / make_required mean what their parts mean under every set of validation options too: a custom type
    whose verdict depends on a keyword option of validate() accepts the same values bare and behind each combinator"""
    from .. import custom
    t = custom.OptSchema()("EUR")
    wrappers = [("alias", lambda x: schema.alias("A", x), lambda v: v), ("alias of alias", lambda x: schema.alias("A", schema.alias("B", x)), lambda v: v),
                ("union", lambda x: x | schema.none, lambda v: v), ("alias of union", lambda x: schema.alias("U", schema.int | x), lambda v: v),
                ("any", lambda x: schema.any(schema.int, x), lambda v: v), ("dict +", lambda x: schema.dict({"a": schema.int}) + schema.dict({"c": x}), lambda v: {"a": 1, "c": v}),
                ("make_required", lambda x: make_required(schema.dict({optional("c"): x})), lambda v: {"c": v}),
                ("typed list", lambda x: schema.list(x), lambda v: [v, v]), ("element list", lambda x: schema.list([..., schema.alias("A", x)]), lambda v: [0, v])]
    for name, wrap, mv in wrappers:
        try:
            s = wrap(t)
        except Exception:  # noqa: BLE001
            continue
        for opts in ({}, {"ignore_case": True}, {"ignore_case": False}):
            for v in ("EUR", "eur", "Eur", "usd", 5, None):
                ctx.count("options_forwarded_cases")
                try:
                    bare = not validate(t, v, **opts).has_errors()
                    got = not validate(s, mv(v), **opts).has_errors()
                except Exception as e:  # noqa: BLE001
                    ctx.violation("validate with options raised " + type(e).__name__, combinator=name, options=safe_repr(opts), value=safe_repr(v))
                    continue
                want = bare or (name in ("union",) and v is None) or (name in ("alias of union", "any") and isinstance(v, int) and not isinstance(v, bool))
                if got != want:
                    ctx.violation("a combinator does not mean what its parts mean under validation options", combinator=name,
                                  options=safe_repr(opts), value=safe_repr(mv(v)), part_accepts=bare, combined_accepts=got)


def wide_unions(ctx):
    """unions of 9 to 14 operands — several non-constant operands of one class among them — built by any(*ops), by chained |,
    by nesting and by joining two unions: the union accepts a value iff some operand does (probed with a witness of each
    operand and with values no operand accepts)"""
    ops = [(schema.int.min(100), 150), (schema.int.max(-100), -150), (schema.int(7), 7), (schema.str.len(1, 2), "ab"), (schema.str.regex(r"^z+$"), "zzz"),
           (schema.str("lit"), "lit"), (schema.dict({"a": schema.int}), {"a": 1}), (schema.dict({"b": schema.str}), {"b": "s"}),
           (schema.list(schema.int), [1, 2]), (schema.list(schema.str), ["s"]), (schema.alias("P", schema.float.min(0.0)), 1.5),
           (schema.alias("N", schema.float.max(-1.0)), -2.5), (schema.none, None), (schema.bool, True), (schema.bytes, b"x")]
    outsiders = [50, -50, "abc", {"c": 1}, [None], -0.5, 8, "", {"a": "s"}]
    for n in (2, 3, 8, 9, 10, 12, 15):
        for rot in (0, 1, 5):
            sel = (ops[rot:] + ops[:rot])[:n]
            parts = [s for s, _ in sel]
            builds = [("any(*ops)", lambda: schema.any(*parts))]
            if n >= 2:
                def chain():
                    u = parts[0]
                    for x in parts[1:]:
                        u = u | x
                    return u
                builds.append(("a | b | ...", chain))
                builds.append(("any(any(head), *tail)", lambda: schema.any(schema.any(*parts[: n // 2]), *parts[n // 2:])))
                builds.append(("u1 | u2", lambda: schema.any(*parts[: n // 2]) | schema.any(*parts[n // 2:])))
            for bname, build in builds:
                try:
                    u = build()
                except Exception as e:  # noqa: BLE001
                    ctx.violation("building a union raised " + type(e).__name__, build=bname, operands=n)
                    continue
                for v in [w for _, w in sel] + outsiders:
                    ctx.count("wide_union_probes")
                    try:
                        some = any(not validate(p, v).has_errors() for p in parts)
                        got = not validate(u, v).has_errors()
                    except Exception:  # noqa: BLE001
                        continue
                    if some != got:
                        ctx.violation("a union does not accept exactly what its operands accept", build=bname, operands=n,
                                      union=safe_repr(u)[:400], value=safe_repr(v), some_operand_accepts=some, union_accepts=got)
                        break


def run(ctx):
    runner.prove(ctx, MODULE, THEOREMS, FILES)
    options_forwarded(ctx)
    wide_unions(ctx)
    directed_unions(ctx)
    make_required_universal_members(ctx)
    getitem_exposes_members(ctx)
    g = SchemaGen(ctx.rnd, max_depth=2)
    reqs, exp, info = [], [], []

    def corr(req_f, real_f, what):
        I = encode.Interner()
        try:
            rq = req_f(I)
            try:
                e = ["ok", encode.tostr(encode.enc_schema(real_f(), I))]
            except (DeclarationError, KeyError, TypeError) as ex:
                e = ["exc", type(ex).__name__]
            reqs.append(rq)
            exp.append(e)
            info.append(what)
        except encode.Unencodable:
            pass

    n = ctx.n(150, 1200)
    for _ in range(n):
        try:
            _one(ctx, g, corr)
        except DeclarationError:
            ctx.count("generator_declaration_rejected")
    # wrongly-typed arguments of make_required are refused with DeclarationError
    for bad_schema, bad_keys in ((schema.int, None), (schema.list, ["a"]), ("not a schema", None), (schema.dict({"a": schema.int}), "a"),
                                 (schema.dict({"a": schema.int}), 5), (schema.dict({"a": schema.int}), {"a": 1})):
        ctx.count("make_required_bad_args")
        try:
            make_required(bad_schema, bad_keys)
            if not (isinstance(bad_keys, dict)):
                ctx.violation("make_required accepted wrongly-typed arguments", schema=safe_repr(bad_schema), keys=safe_repr(bad_keys))
        except DeclarationError:
            pass
        except Exception as e:  # noqa: BLE001
            ctx.violation("make_required raised %s, not DeclarationError" % type(e).__name__, schema=safe_repr(bad_schema), keys=safe_repr(bad_keys))
    _finish(ctx, reqs, exp, info)


def directed_unions(ctx):
    """every ordered pair and triple of a small operand universe — the universal schema (untyped any, alias of it, any(any)) on
    either side, unions as operands, same-kind and cross-kind leaves — joined with `|` in both associations and with
    schema.any(...), probed with a fixed value universe: the union accepts exactly what some operand accepts"""
    import itertools
    ops = [lambda: schema.any, lambda: schema.int, lambda: schema.str("x"), lambda: schema.none, lambda: schema.list(schema.int),
           lambda: schema.dict({"k": schema.int}), lambda: schema.any(schema.int, schema.str), lambda: schema.alias("U", schema.any),
           lambda: schema.any(schema.any), lambda: schema.int.min(5), lambda: schema.any(schema.none), lambda: schema.bool]
    probes = [1, 7, True, "x", "y", None, [], [1], ["a"], {}, {"k": 1}, {"k": "s"}, 1.5, b"b", ...]
    built = []
    for mk in ops:
        try:
            built.append(mk)
            mk()
        except Exception:  # noqa: BLE001
            built.pop()
    for mks in itertools.chain(itertools.permutations(built, 2), ctx.rnd.sample(list(itertools.permutations(built, 3)), ctx.n(150, 600))):
        xs = [mk() for mk in mks]
        forms = []
        try:
            if len(xs) == 2:
                forms = [("a | b", xs[0] | xs[1]), ("schema.any(a, b)", schema.any(xs[0], xs[1]))]
            else:
                forms = [("(a | b) | c", (xs[0] | xs[1]) | xs[2]), ("a | (b | c)", xs[0] | (xs[1] | xs[2])),
                         ("schema.any(a | b, c)", schema.any(xs[0] | xs[1], xs[2]))]
        except Exception as e:  # noqa: BLE001
            ctx.violation("a combinator check raised " + type(e).__name__, operands=[safe_repr(x) for x in xs])
            continue
        ctx.count("directed_union_forms", len(forms))
        # iteration exposes the declared members: for operands that are not typed unions themselves, exactly the operands, in order
        from d42.declaration.types import AnySchema
        from niltype import Nil
        if all(not (isinstance(x, AnySchema) and x.props.get("types") is not Nil) for x in xs):
            for name, u in forms:
                got = [safe_repr(m) for m in u]
                if got != [safe_repr(x) for x in xs]:
                    ctx.violation("iteration over a union does not expose its declared members", form=name,
                                  operands=[safe_repr(x) for x in xs], iterated=got)
                    return
        for v in probes:
            want = any(ok(x, v) for x in xs)
            for name, u in forms:
                if ok(u, v) != want:
                    ctx.violation("a | b does not accept exactly the union", form=name, operands=[safe_repr(x) for x in xs],
                                  value=safe_repr(v), union=safe_repr(u))
                    return


def getitem_exposes_members(ctx):
    """d[key] for EVERY declared key (str, tuple — also a tuple that spells a path through nested dicts —, frozenset, int, None,
    bool, bytes, optional-wrapped) is the declared member; iteration / keys() list exactly the declared keys; the same on the
    results of + and make_required"""
    from ..hostile import SPECIAL_KEYS
    inner = schema.dict({"b": schema.str("nested"), "id": schema.int})
    base = {"a": inner, ("a", "b"): schema.int.min(0), ("a",): schema.none, (): schema.bool, ("a", "id", "x"): schema.float}
    for extra in (dict(), {k: schema.bytes for k in SPECIAL_KEYS if k not in base}):
        decl = dict(base)
        decl.update(extra)
        try:
            d = schema.dict({(optional(k) if i % 3 == 0 else k): v for i, (k, v) in enumerate(decl.items())})
        except Exception:  # noqa: BLE001
            continue
        variants = [("d", d)]
        try:
            variants += [("d + schema.dict({'zz': schema.int})", d + schema.dict({"zz": schema.int})), ("make_required(d)", make_required(d))]
        except Exception as e:  # noqa: BLE001
            ctx.violation("a combinator check raised " + type(e).__name__, schema=safe_repr(d))
        for name, s in variants:
            ctx.count("getitem_probes")
            try:
                listed = [k for k in s]
                for k, want in decl.items():
                    got = s[k]
                    if got is not want and not (got == want and safe_repr(got) == safe_repr(want)):
                        ctx.violation("d[key] does not expose the declared member schema", form=name, key=safe_repr(k),
                                      declared=safe_repr(want), got=safe_repr(got))
                        return
                if set(map(safe_repr, listed)) - {"'zz'"} != set(map(safe_repr, decl)):
                    ctx.violation("iteration does not list exactly the declared keys", form=name, listed=safe_repr(listed)[:300])
                    return
            except Exception as e:  # noqa: BLE001
                ctx.violation("d[key] / iteration raised %s for a declared key" % type(e).__name__, form=name, exception=safe_repr(e)[:200])
                return


def make_required_universal_members(ctx):
    """make_required(d) / make_required(d, keys) on dicts whose OPTIONAL members accept anything (untyped any, alias of it,
    unions containing it — schemas that `==` the sentinels `...` / Nil / None): every listed (default: every) key becomes
    required, nothing else changes"""
    universal = [lambda: schema.any, lambda: schema.alias("U", schema.any), lambda: schema.any(schema.any, schema.none), lambda: schema.int | schema.any,
                 lambda: schema.none, lambda: schema.any(schema.none, schema.int)]
    for mk in universal:
        for relaxed in (False, True):
            items = {optional("meta"): mk(), optional("id"): schema.int, "name": schema.str, optional("u2"): mk()}
            if relaxed:
                items[...] = ...
            try:
                d = schema.dict(items)
            except Exception:  # noqa: BLE001
                continue
            for keys in (None, ["meta"], ("meta", "id"), {"u2"}, ["meta", "id", "name", "u2"], []):
                ctx.count("make_required_universal_cases")
                try:
                    r = make_required(d) if keys is None else make_required(d, keys)
                except Exception as e:  # noqa: BLE001
                    ctx.violation("make_required raised %s" % type(e).__name__, schema=safe_repr(d), keys=safe_repr(keys))
                    continue
                want_required = {"meta", "id", "name", "u2"} if keys is None else (set(keys) | {"name"})
                full = {"meta": 1, "id": 2, "name": "n", "u2": None}
                for missing in ("meta", "id", "name", "u2"):
                    v = {k: x for k, x in full.items() if k != missing}
                    got = ok(r, v)
                    want = ok(d, v) and missing not in want_required
                    if got != want:
                        ctx.violation("make_required(d, keys) does not accept exactly the values of d in which the listed keys are present",
                                      schema=safe_repr(d), keys=safe_repr(keys), value=safe_repr(v), accepted=got, result=safe_repr(r))
                        return
                if ok(r, full) != ok(d, full):
                    ctx.violation("make_required changed the verdict on a value that has every key", schema=safe_repr(d), keys=safe_repr(keys))


def _one(ctx, g, corr):
    if True:
        # --- unions
        (a, wa), (b, wb) = g.any_schema(2), g.any_schema(2)
        u = a | b
        u3 = schema.any(schema.any(a, b), schema.any(b))
        ctx.case(("or", safe_repr(a), safe_repr(b)), True)
        vals = [wa, wb] + gen_value.perturb(wa, ctx.rnd)[:6] + gen_value.perturb(wb, ctx.rnd)[:6]
        for v in vals:
            ctx.count("union_probes")
            try:
                want = ok(a, v) or ok(b, v)
                if ok(u, v) != want:
                    ctx.violation("a | b does not accept exactly the union", a=safe_repr(a), b=safe_repr(b), value=safe_repr(v), union=safe_repr(u))
                if ok(u3, v) != want:
                    ctx.violation("a nested union does not mean the same after flattening", a=safe_repr(a), b=safe_repr(b), value=safe_repr(v))
                al = schema.alias("N", a)
                if ok(al, v) != ok(a, v):
                    ctx.violation("alias(name, t) does not accept exactly what t accepts", t=safe_repr(a), value=safe_repr(v))
            except Exception as e:  # noqa: BLE001
                ctx.violation("a combinator check raised " + type(e).__name__, a=safe_repr(a), b=safe_repr(b), value=safe_repr(v))
        corr(lambda I: ["union", encode.enc_schema(a, I), encode.enc_schema(b, I)], lambda: a | b, ("union", a, b))
        # --- dict addition
        (d1, w1), (d2, w2) = g.dict_(2), g.dict_(2)
        if ctx.rnd.random() < .15:
            d1, w1 = schema.dict, {}            # an operand without declared keys contributes none
        elif ctx.rnd.random() < .15:
            d2, w2 = schema.dict, {}
        try:
            s = d1 + d2
        except Exception as e:  # noqa: BLE001
            ctx.violation("d1 + d2 raised %s for two dict schemas" % type(e).__name__, d1=safe_repr(d1), d2=safe_repr(d2), exception=safe_repr(e))
            return
        ref = ref_merged(d1, d2)
        ctx.case(("add", safe_repr(d1), safe_repr(d2)), d1.props.get("keys") is not Nil and d2.props.get("keys") is not Nil)
        merged_w = {**w1, **w2} if isinstance(w1, dict) and isinstance(w2, dict) else w2
        vals = [w1, w2, merged_w] + gen_value.perturb(merged_w, ctx.rnd)[:10]
        for v in vals:
            ctx.count("add_probes")
            if ok(s, v) != ok(ref, v):
                ctx.violation("d1 + d2 does not accept what the merged dict schema accepts", d1=safe_repr(d1), d2=safe_repr(d2),
                              value=safe_repr(v), sum=safe_repr(s), reference=safe_repr(ref))
        k1, k2 = d1.props.get("keys"), d2.props.get("keys")
        relaxed = (k1 is not Nil and ... in k1) or (k2 is not Nil and ... in k2)
        ks = s.props.get("keys")
        if (... in ks) != relaxed:
            ctx.violation("d1 + d2 is relaxed iff either operand is — violated", d1=safe_repr(d1), d2=safe_repr(d2), sum=safe_repr(s))
        corr(lambda I: ["add", encode.enc_schema(d1, I), encode.enc_schema(d2, I)], lambda: d1 + d2, ("add", d1, d2))
        # --- make_required
        keys = d1.props.get("keys")
        names = [] if keys is Nil else [k for k in keys if k is not Ellipsis]
        for pick in ([None, [], (), set()] + ([ctx.rnd.sample(names, ctx.rnd.randint(1, len(names)))] if names else [])
                     + ([tuple(names[:1]), set(names[-1:])] if names else []) + [["~missing~"]]):
            try:
                r = make_required(d1, pick)
            except DeclarationError:
                r = None
            if r is not None:
                req_keys = names if pick is None else pick
                for v in [w1] + gen_value.perturb(w1, ctx.rnd)[:10]:
                    ctx.count("required_probes")
                    want = ok(d1, v) and isinstance(v, dict) and all(k in v for k in req_keys)
                    if ok(r, v) != want:
                        ctx.violation("make_required(d, keys) does not accept exactly the values of d with those keys present",
                                      d=safe_repr(d1), keys=safe_repr(pick), value=safe_repr(v), result=safe_repr(r))
            corr(lambda I: ["makerequired", encode.enc_schema(d1, I),
                            "_" if pick is None else ["ks"] + [encode.enc_key(k, I) for k in list(pick)]],
                 lambda: make_required(d1, pick), ("required", d1, pick))
        # --- d[key] and iteration expose the declared members
        if keys is not Nil:
            if list(d1) != list(keys.keys()):
                ctx.violation("iteration over a dict schema does not yield its declared keys", d=safe_repr(d1))
            for k in names:
                if d1[k] is not keys[k][0]:
                    ctx.violation("d[key] is not the declared member schema", d=safe_repr(d1), key=safe_repr(k))
                corr(lambda I: ["getitem", encode.enc_schema(d1, I), encode.enc_key(k, I)], lambda: d1[k], ("getitem", d1, k))


def _finish(ctx, reqs, exp, info):
    res = model.run_batch(reqs)
    bad = 0
    for r, e, what in zip(res, exp, info):
        ctx.count("corr_cases")
        if isinstance(r, list) and r and r[0] not in ("ok", "exc"):
            r = ["ok", r]     # `union` answers the bare schema
        if r != e:
            bad += 1
            if bad <= 10:
                ctx.breakage("correspondence", "combinator result differs between model and code", op=what[0],
                             operands=[safe_repr(x)[:300] for x in what[1:]],
                             detail=f"real {sexp.dumps(e)[:400]}\nmodel {sexp.dumps(r)[:400] if not isinstance(r, str) else r}")
    ctx.cov["corr_disagreements"] = bad
    ctx.sample({"example": "schema.dict({'a': schema.int}) + schema.dict({optional('a'): schema.str, ...: ...})"})


def replay(path):
    print(open(path).read()[:6000])
    return 0


MANIFEST = dict(
    category="proof",
    technique="Lean 4 theorems (corollaries of validate_iff_conforms): union, flattening, +, make_required, alias + structural "
              "correspondence of the combined schema",
    text="Theorems in Props/C13.lean over the declarative meaning Conforms: a|b accepts exactly the union, nested unions flatten "
         "without changing meaning, d1+d2 means the merged key table (right wins, relaxed if either), make_required means "
         "'conforms and the listed keys are present', alias means its target; tie: the combined schema produced by model and code "
         "compared structurally; search: reference semantics evaluated with the real validate."
         " Source pins: the normalised text of every anchor file is compared with the text the model was last validated against; a changed file is a broken obligation (no-failing-input-found unless the search finds an input).",
    note="Trusted: Lean kernel + standard axioms, hand model (sampling tie), codec.")
