"""C16 — custom schema types behave like built-ins in every position."""
from ..common import safe_repr
from .. import conforms, encode, model, rebuild, runner, scripted_random as SR, sexp, valcases, valcorr, gen_value
from ..common import d42  # noqa: F401
from d42 import optional, schema, substitute, validate
from d42.representation import Representor

MODULE = "D42.Props.C16Erase"
THEOREMS = ["erase_validate", "erase_validateAll", "erase_validateElems", "erase_windows", "erase_validateFields",
            "erase_anyOk", "custom_validate", "custom_represent", "custom_gen", "custom_subst_ok", "custom_pyEq",
            "erase_gen", "erase_represent", "erase_subst", "erase_idem", "erase_pyEq_self", "erase_pyEq", "erase_pyEq_of_pyEq",
            "erase_pyEq_self_counterexample", "erase_fromNative"]
FILES = ["D42/Model/Data.lean", "D42/Model/Validate.lean", "D42/Model/Gen.lean", "D42/Model/Repr.lean",
         "D42/Model/Subst.lean", "D42/Model/Eq.lean", "D42/Props/C15.lean", "D42/Props/C16.lean", "D42/Props/C16Erase.lean"]

EVIDENCE = dict(
    level="proof",
    checker_cmd="lake build D42.Props.C16Erase d42model && lake env lean <#print axioms audit>",
    trusted=["Lean kernel; standard axioms", "the model evaluates `custom inner` by forwarding path/indent/draws to `inner` "
             "exactly as CustomSchema.__d42_*__ + a forwarding user hook do; tie = comparing the real wrapped tree against "
             "the real plain tree and against the model on errors, generated values, repr text and substitution outcome"],
    rule="schema trees from the generator; each is run plain and with a random subset of sub-schemas wrapped in a forwarding "
         "CustomSchema; values: witness, generated, perturbations; non-trivial = at least one wrapped node below the root")

R = Representor()


def err_key(e, I):
    return sexp.dumps(encode.canon_param(encode.tostr(encode.enc_error(e, I))))


def run(ctx):
    from .. import custom as custom_mod
    runner.prove(ctx, MODULE, THEOREMS, FILES)
    try:
        directed_positions(ctx)
        deep_forwarders(ctx)
        faulting_probes(ctx)
        from .. import limits
        limits.custom_union_probe(ctx)
    except Exception as e:  # noqa: BLE001  (the fixed family could not even be declared on the tree under test)
        ctx.count("directed_positions_failed:" + type(e).__name__)
    batch = valcases.schema_batch(ctx, ctx.n(70, 500), customs=False)
    if not ctx.quick():
        # thorough: every third schema of the small scope, wrapped at random / at every position
        from .. import smallscope
        batch = batch + [(x, None) for x in smallscope.schemas()[::3]]
        ctx.cov["smallscope_schemas"] = len(batch)
    cases = []
    for s, w in batch:
        try:
            ws = rebuild.wrap_random(s, ctx.rnd, prob=ctx.rnd.choice([0.2, 0.5, 1.0]))
            nwrapped = sum(1 for x in rebuild.subschemas(ws) if isinstance(x, custom_mod.FWD_CLASSES))
        except Exception as e:  # noqa: BLE001
            # wrapping is `CustomSchema()(inner)` + `props.update(...)` on the tree under test: it never fails on the unchanged tree
            ctx.breakage("correspondence", "wrapping the sub-schemas of a schema in a forwarding custom type raised "
                         + type(e).__name__, schema=safe_repr(s)[:400], exception=safe_repr(e)[:300])
            continue
        ctx.case(safe_repr(s) + str(nwrapped), nwrapped > 0)
        ctx.count("wrapped_nodes", nwrapped)
        info = dict(plain=safe_repr(s), wrapped_nodes=nwrapped)
        # 1. printed form identical at several indents
        for ind in (0, 4):
            try:
                a, b = s.__accept__(R, indent=ind), ws.__accept__(R, indent=ind)
            except Exception as e:  # noqa: BLE001
                ctx.violation("represent raised on the wrapped tree: " + type(e).__name__, **info)
                continue
            if a != b:
                ctx.violation("printed form differs when sub-schemas are wrapped in a forwarding custom type",
                              plain_text=a, wrapped_text=b, indent=ind, **info)
        # 2. validation: same errors, same paths
        vals = [w] + valcases.generated_values(ctx, s, ("lo", "rnd"))
        ps = gen_value.perturb(w, ctx.rnd)
        vals += ctx.rnd.sample(ps, min(len(ps), ctx.n(8, 20)))
        for v in vals:
            I = encode.Interner()
            try:
                e1 = sorted(err_key(e, I) for e in validate(s, v).get_errors())
                e2 = sorted(err_key(e, I) for e in validate(rebuild.erase_custom(ws) if False else ws, v).get_errors())
            except encode.Unencodable:
                continue
            except Exception as e:  # noqa: BLE001
                ctx.violation("validate raised on the wrapped tree: " + type(e).__name__, value=safe_repr(v), **info)
                continue
            ctx.count("validate_pairs")
            # mismatch errors list the alternative schemas, which legitimately print the wrapper's inner: compare after
            # encoding (custom is encoded as `(custom X)`): strip the marker
            e2 = [x.replace("(custom ", "(custom_ ") for x in e2]
            e1n = [x for x in e1]
            if strip_custom(e2) != e1n:
                ctx.violation("validation errors/paths differ when sub-schemas are wrapped", value=safe_repr(v),
                              plain_errors=e1[:4], wrapped_errors=e2[:4], **info)
            # the caller's own root path (validate(..., path=PathHolder("body"))) is used by a wrapped root as by a plain one
            try:
                from th import PathHolder
                r1 = [(type(e).__name__, safe_repr(e.path)) for e in validate(s, v, path=PathHolder("body")).get_errors()]
                r2 = [(type(e).__name__, safe_repr(e.path)) for e in validate(ws, v, path=PathHolder("body")).get_errors()]
                ctx.count("named_root_path_pairs")
                if sorted(r1) != sorted(r2):
                    ctx.violation("error paths differ under a caller-supplied root path when sub-schemas are wrapped",
                                  value=safe_repr(v), plain_paths=r1[:4], wrapped_paths=r2[:4], **info)
            except Exception as e:  # noqa: BLE001
                ctx.violation("validate with a caller-supplied root path raised " + type(e).__name__, value=safe_repr(v), **info)
            c = valcorr.ValCase(ws, v, "wrapped")
            valcorr.run_real(c)
            valcorr.prepare(c)
            cases.append(c)
        # 3. generation under the same draws: same value, and it conforms
        for pol in ("lo", "hi", "rnd"):
            st = ctx.rnd.getstate()
            (k1, v1), log1 = SR.generate(s, SR.make_policy(pol, ctx.rnd))
            ctx.rnd.setstate(st)
            (k2, v2), log2 = SR.generate(ws, SR.make_policy(pol, ctx.rnd))
            ctx.count("gen_pairs")
            if k1 != k2 or (k1 == "ok" and not same_value(v1, v2)) or (k1 == "exc" and type(v1) is not type(v2)):
                ctx.violation("generation differs when sub-schemas are wrapped", policy=pol, plain=safe_repr(v1),
                              wrapped=safe_repr(v2), **{k: v for k, v in info.items() if k != "plain"}, plain_schema=safe_repr(s))
            elif k2 == "ok":
                try:
                    rejected = conforms.conforms(s, w) and validate(s, v1).has_errors() is False and validate(ws, v2).has_errors()
                except Exception:  # noqa: BLE001  (validate raising is C08's business)
                    ctx.count("validate_raised")
                    rejected = False
                if rejected:
                    ctx.violation("a value generated from the wrapped tree is rejected by it", value=safe_repr(v2), **info)
        # 4. substitution succeeds / fails identically and results agree after erasing
        from ..substcorr import ellipsize, partial
        for v in vals[:6] + [..., ellipsize(w, ctx.rnd), partial(w, ctx.rnd), [...], {"a": ...}]:
            r1 = try_subst(s, v)
            r2 = try_subst(ws, v)
            ctx.count("subst_pairs")
            if r1[0] != r2[0] or (r1[0] == "exc" and r1[1] != r2[1]):
                ctx.violation("substitution outcome differs when sub-schemas are wrapped", value=safe_repr(v),
                              plain_outcome=safe_repr(r1), wrapped_outcome=safe_repr(r2), **info)
            elif r1[0] == "ok":
                # compared structurally (encodings) and by printed form; `==` is false for NaN values (K6)
                def enc(x):
                    try:
                        return sexp.dumps(encode.enc_schema(x, encode.Interner()))
                    except Exception:
                        return safe_repr(x)
                if enc(rebuild.erase_custom(r2[1])) != enc(r1[1]) or safe_repr(r2[1]) != safe_repr(r1[1]):
                    ctx.violation("substitution result differs (after erasing wrappers) from the plain result",
                                  value=safe_repr(v), plain_result=safe_repr(r1[1]), wrapped_result=safe_repr(r2[1]), **info)
    dis = valcorr.compare(cases, ctx, view="errors")
    for c, detail in dis[:10]:
        ctx.breakage("correspondence", "model (custom = transparent) and code disagree on a wrapped tree",
                     schema=safe_repr(c.schema), value=safe_repr(c.value), detail=detail, request=c.req)
    ctx.cov["corr_disagreements"] = len(dis)
    for s, w in batch[:3]:
        ctx.sample({"schema": safe_repr(s), "witness": safe_repr(w)})


def directed_positions(ctx):
    """every built-in leaf kind x every position the property lists (root, list element, typed list, dict value, any
    alternative, alias target, alias of a union, depth 3), plain against the same tree with the leaf wrapped in a forwarding
    custom type: validation errors+paths, printed form, substitution outcome/result; values = conforming and not"""
    import datetime as _dt
    import uuid as _uuid
    from .. import custom
    u4 = _uuid.UUID("0f0e0d0c-0b0a-4908-8706-050403020100")
    leaves = [(schema.none, [None, 0]), (schema.bool, [True, 1]), (schema.int, [5, True, "5"]), (schema.int.min(3), [5, 1]),
              (schema.float, [1.5, 1]), (schema.str, ["s", b"s"]), (schema.str.len(1), ["s", ""]), (schema.bytes, [b"x", "x"]),
              (schema.uuid4, [u4, str(u4)]), (schema.datetime, [_dt.datetime(2024, 2, 29, 12, 30, 15), _dt.date(2024, 2, 29), "2024"]),
              (schema.date, [_dt.date(2024, 2, 29), _dt.datetime(2024, 2, 29, 1, 2, 3)]), (schema.list(schema.int), [[1], ["a"]]),
              (schema.dict({"a": schema.int}), [{"a": 1}, {"a": "x"}, {}])]
    positions = [
        ("root", lambda t: t, lambda v: v),
        ("list element", lambda t: schema.list([schema.int, t]), lambda v: [1, v]),
        ("typed list", lambda t: schema.list(t), lambda v: [v, v]),
        ("dict value", lambda t: schema.dict({"k": t, optional("o"): schema.int}), lambda v: {"k": v}),
        ("any alternative", lambda t: schema.any(t, schema.none), lambda v: v),
        ("alias target", lambda t: schema.alias("A", t), lambda v: v),
        ("alias of union", lambda t: schema.alias("A", t | schema.none), lambda v: v),
        ("depth 3", lambda t: schema.dict({"d": schema.list([..., schema.any(schema.dict({"x": t}), schema.str)])}),
         lambda v: {"d": ["s", {"x": v}]}),
    ]
    for leaf, lvals in leaves:
        for pname, mk, mv in positions:
          for wi, wrapper in enumerate(custom.WRAPPERS):
            try:
                s, ws = mk(leaf), mk(wrapper(leaf))
            except Exception:  # noqa: BLE001
                ctx.count("directed_positions_not_declarable")
                continue
            info = dict(plain=safe_repr(s), position=pname, wrapped_nodes=1, custom_class=type(wrapper(leaf)).__name__)
            if s.__accept__(R, indent=0) != ws.__accept__(R, indent=0):
                ctx.violation("printed form differs when sub-schemas are wrapped in a forwarding custom type", **info)
            for lv in lvals:
                v = mv(lv)
                ctx.count("directed_position_cases")
                I = encode.Interner()
                try:
                    e1 = sorted(err_key(e, I) for e in validate(s, v).get_errors())
                    e2 = sorted(err_key(e, I) for e in validate(ws, v).get_errors())
                    e2 = strip_custom([x.replace("(custom ", "(custom_ ") for x in e2])
                    if e1 != e2:
                        ctx.violation("validation errors/paths differ when sub-schemas are wrapped", value=safe_repr(v),
                                      plain_errors=e1[:4], wrapped_errors=e2[:4], **info)
                except encode.Unencodable:
                    pass
                except Exception as e:  # noqa: BLE001
                    ctx.violation("validate raised on the wrapped tree: " + type(e).__name__, value=safe_repr(v), **info)
                r1, r2 = try_subst(s, v), try_subst(ws, v)
                if r1[0] != r2[0] or (r1[0] == "exc" and r1[1] != r2[1]):
                    ctx.violation("substitution outcome differs when sub-schemas are wrapped", value=safe_repr(v),
                                  plain_outcome=safe_repr(r1), wrapped_outcome=safe_repr(r2), **info)
                elif r1[0] == "ok" and safe_repr(r2[1]) != safe_repr(r1[1]):
                    ctx.violation("substitution result differs (after erasing wrappers) from the plain result",
                                  value=safe_repr(v), plain_result=safe_repr(r1[1]), wrapped_result=safe_repr(r2[1]), **info)


def faulting_probes(ctx):
    """values whose own comparison raises (user code faulting inside the wrapped built-in's `value != expected`), given to a
    fixed-value leaf that sits where the enclosing union's pre-validation has already stopped at an earlier alternative, at
    the root and below dict values / typed lists / alias targets: whatever the built-in tree does (a result, or an exception
    of some class), the tree with the forwarding custom type must do the same"""
    from .. import custom, hostile
    leaves = [(schema.int(5), lambda exc: hostile.TouchyInt(7, exc), schema.int),
              (schema.str("a"), lambda exc: hostile.TouchyStr("b", exc), schema.str)]
    positions = [
        ("later any alternative", lambda first, t: schema.any(first, t), lambda v: v),
        ("later any alternative in a dict value", lambda first, t: schema.dict({"k": schema.any(first, t)}), lambda v: {"k": v}),
        ("later any alternative in a typed list", lambda first, t: schema.list(schema.any(first, t)), lambda v: [v]),
        ("later any alternative behind an alias", lambda first, t: schema.alias("A", schema.any(first, t)), lambda v: v),
        ("only alternative", lambda first, t: schema.any(t), lambda v: v),
        ("root", lambda first, t: t, lambda v: v),
        ("list element", lambda first, t: schema.list([first, t]), lambda v: [v, v]),
    ]
    for leaf, mkv, first in leaves:
        for exc in hostile.FAULTS:
            for pname, mk, mv in positions:
                try:
                    s, ws = mk(first, leaf), mk(first, custom.wrap(leaf))
                except Exception:  # noqa: BLE001
                    ctx.count("faulting_probes_not_declarable")
                    continue
                v = mv(mkv(exc))
                ctx.count("faulting_probe_cases")
                info = dict(plain=safe_repr(s), position=pname, wrapped_nodes=1, value=safe_repr(v))
                r1, r2 = try_subst(s, v), try_subst(ws, v)
                if r1[0] != r2[0] or (r1[0] == "exc" and r1[1] != r2[1]):
                    ctx.violation("substitution outcome differs when sub-schemas are wrapped", plain_outcome=safe_repr(r1)[:200],
                                  wrapped_outcome=safe_repr(r2)[:200], **info)
                elif r1[0] == "ok" and safe_repr(rebuild.erase_custom(r2[1])) != safe_repr(r1[1]):
                    ctx.violation("substitution result differs (after erasing wrappers) from the plain result",
                                  plain_result=safe_repr(r1[1]), wrapped_result=safe_repr(r2[1]), **info)

                def val(t):
                    try:
                        return ("ok", sorted(safe_repr((type(e).__name__, safe_repr(e.path))) for e in validate(t, v).get_errors()))
                    except Exception as e:  # noqa: BLE001
                        return ("exc", type(e).__name__)
                v1, v2 = val(s), val(ws)
                if v1 != v2:
                    ctx.violation("validation outcome differs when sub-schemas are wrapped", plain_outcome=safe_repr(v1)[:200],
                                  wrapped_outcome=safe_repr(v2)[:200], **info)


def deep_forwarders(ctx):
    """the same forwarding class nested 1..20 times along one branch, through every position: printed form, validation, generation
    (under fixed draws) and substitution equal the plain tree's"""
    from .. import custom

    def build(n, wrap):
        s, w = schema.int.min(0), 3
        for i in range(n):
            k = i % 5
            if k == 0:
                s, w = schema.dict({"d": wrap(s), optional("o"): schema.int}), {"d": w}
            elif k == 1:
                s, w = schema.list([schema.none, wrap(s)]), [None, w]
            elif k == 2:
                s, w = schema.list(wrap(s)).len(1, 2), [w]
            elif k == 3:
                s, w = schema.any(schema.str, wrap(s)), w
            else:
                s, w = wrap(schema.dict({"x": s})), {"x": w}
        return wrap(s), w
    for n in (1, 2, 3, 5, 8, 9, 12, 20):
        try:
            (s, w), (ws, _) = build(n, lambda x: x), build(n, custom.wrap)
        except Exception:  # noqa: BLE001
            ctx.count("deep_forwarders_not_declarable")
            continue
        info = dict(plain=safe_repr(s)[:300], wrapped_nodes=n + 1, depth=n)
        ctx.count("deep_forwarder_cases")
        try:
            if s.__accept__(R, indent=0) != ws.__accept__(R, indent=0):
                ctx.violation("printed form differs when sub-schemas are wrapped in a forwarding custom type", **info)
            for v in (w, gen_value.perturb(w, ctx.rnd)[:6]):
                for x in ([v] if v is w else v):
                    e1 = sorted(safe_repr((type(e).__name__, safe_repr(e.path))) for e in validate(s, x).get_errors())
                    e2 = sorted(safe_repr((type(e).__name__, safe_repr(e.path))) for e in validate(ws, x).get_errors())
                    if e1 != e2:
                        ctx.violation("validation errors/paths differ when sub-schemas are wrapped", value=safe_repr(x)[:200], plain_errors=e1[:3],
                                      wrapped_errors=e2[:3], **info)
            for pol in ("lo", "hi", "rnd"):
                st = ctx.rnd.getstate()
                (k1, v1), _ = SR.generate(s, SR.make_policy(pol, ctx.rnd))
                ctx.rnd.setstate(st)
                (k2, v2), _ = SR.generate(ws, SR.make_policy(pol, ctx.rnd))
                if k1 != k2 or (k1 == "ok" and not same_value(v1, v2)):
                    ctx.violation("generation differs when sub-schemas are wrapped", policy=pol, plain=safe_repr(v1)[:200], wrapped=safe_repr(v2)[:200], **info)
            r1, r2 = try_subst(s, w), try_subst(ws, w)
            if r1[0] != r2[0] or (r1[0] == "ok" and safe_repr(r1[1]) != safe_repr(r2[1])):
                ctx.violation("substitution outcome differs when sub-schemas are wrapped", value=safe_repr(w)[:200], plain_outcome=safe_repr(r1)[:200],
                              wrapped_outcome=safe_repr(r2)[:200], **info)
        except Exception as e:  # noqa: BLE001
            ctx.violation("an operation raised on a deep chain of forwarding custom types: " + type(e).__name__, exception=safe_repr(e)[:300], **info)


def strip_custom(keys):
    out = []
    for x in keys:
        # remove "(custom_ " and the matching ")"
        while "(custom_ " in x:
            i = x.index("(custom_ ")
            j = i + len("(custom_ ")
            depth = 1
            k = j
            while depth:
                if x[k] == "(":
                    depth += 1
                elif x[k] == ")":
                    depth -= 1
                k += 1
            x = x[:i] + x[j:k - 1] + x[k:]
        out.append(x)
    return sorted(out)


def same_value(a, b):
    if isinstance(a, float) and isinstance(b, float) and a != a and b != b:
        return True
    if type(a) is not type(b):
        return False
    if isinstance(a, list):
        return len(a) == len(b) and all(same_value(x, y) for x, y in zip(a, b))
    if isinstance(a, dict):
        return list(a.keys()) == list(b.keys()) and all(same_value(a[k], b[k]) for k in a)
    return a == b


def try_subst(s, v):
    try:
        return ("ok", substitute(s, v))
    except Exception as e:  # noqa: BLE001
        return ("exc", type(e).__name__)


def replay(path):
    print(open(path).read()[:6000])
    return 0


MANIFEST = dict(
    category="proof",
    technique="Lean 4 erasure theorems (custom node = its inner schema in every visitor) + plain-vs-wrapped differential run",
    text="Theorems: validating, generating from, printing and substituting into `custom inner` equals doing so with `inner` "
         "(same errors and paths, same draws and value, same tokens at every indent, same outcome), lifted to arbitrary sets "
         "of wrapped positions at any depth by erase_validate / erase_gen / erase_represent / erase_subst (mutual inductions over "
         "the tree, Props/C16Erase.lean); `==` is preserved by erasure (erase_pyEq_of_pyEq) and equal for trees wrapped at the same "
         "positions (erase_pyEq; erase_pyEq_self needs distinct dict keys — a Python dict guarantees them, counter-example "
         "theorem for the model's duplicate-key tables); tie and search: every generated tree is executed "
         "on the real code both plain and with random sub-schemas wrapped in a real forwarding CustomSchema and compared."
         " Source pins: the normalised text of every anchor file is compared with the text the model was last validated against; a changed file is a broken obligation (no-failing-input-found unless the search finds an input).",
    note="Trusted: Lean kernel + standard axioms, hand model, codec. The forwarding class is the harness's (harness/custom.py); "
         "a custom type that does not forward its arguments is outside the property.")
