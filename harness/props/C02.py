"""C02 — the validation verdict equals the declared constraints, no more, no less."""
from ..common import safe_repr
from .. import conforms, runner, valcases, valcorr

MODULE = "D42.Props.C02All"
THEOREMS = ["validate_iff_conforms", "validateP_nil_iff", "validateAllP_nil_iff", "validateElemsP_nil_iff",
            "validateFieldsP_nil_iff", "anyOkP_iff", "validateScalar_nil_iff", "minByLen_nil_iff", "windowsP_exists_nil",
            "validateScalar_eq_extracted", "listPrelude_eq_extracted", "dictPrelude_eq_extracted", "anyPrelude_eq_extracted", "validateP_list_prelude", "validateP_dict_prelude",
            "extracted_accepts_iff_conforms"]
FILES = ["D42/Model/Data.lean", "D42/Model/Float.lean", "D42/Model/Validate.lean", "D42/Spec/Conforms.lean", "D42/Props/C02.lean",
         "D42/Model/CheckProg.lean", "D42/Gen/ValidatorProg.lean", "D42/Props/ValidatorProg.lean", "D42/Props/C02All.lean"]

EVIDENCE = dict(
    level="proof",
    checker_cmd="lake build D42.Props.C02All d42model && lake env lean <#print axioms audit>",
    trusted=["Lean 4.33.0 kernel; axioms ⊆ {propext, Classical.choice, Quot.sound}",
             "model D42/Model/Validate.lean tied to the code by the verdict/error-list correspondence of this run",
             "Conforms (Lean) is the declarative meaning written from the property text; harness/conforms.py is its "
             "independent Python twin used only to search the real code for failing inputs",
             "re.search results shipped as a table; IEEE rounding = executable flExec in the driver"],
    rule="(schema, value) cases: witness, values generated under lo/hi/rnd draws, one-step perturbations at every depth, "
         "bound±1, hostile values; non-trivial = not the bare witness; distinct by repr; thorough tier adds the WHOLE small scope: every schema of a small grammar to depth 2 (5.2k) x a fixed universe of 121 values, verdict vs model and vs the independent Conforms oracle")


def oracle(ctx, cases):
    for c in cases:
        ctx.case((safe_repr(c.schema), safe_repr(c.value)), c.tag != "witness")
        ctx.count("tag:" + c.tag)
        if c.real_exc is not None:
            continue   # C08's business
        try:
            want = conforms.conforms(c.schema, c.value)
        except Exception as e:   # noqa: BLE001
            ctx.count("oracle_skipped:" + type(e).__name__)
            continue
        got = len(c.real) == 0
        ctx.count("conforming" if want else "nonconforming")
        if want != got:
            ctx.violation("validate accepts a non-conforming value" if got else "validate rejects a conforming value",
                          schema=safe_repr(c.schema), value=safe_repr(c.value),
                          errors=[safe_repr(e) for e in c.real], py_schema=c.schema, py_value=c.value)


def run(ctx):
    from .. import extract_validator
    ok, msg = extract_validator.run()
    if not ok:
        ctx.breakage("translation", "validator extraction failed (d42/validation/_validator.py no longer consists of the "
                     "recognised idioms): " + msg)
    runner.prove(ctx, MODULE, THEOREMS, FILES)
    cases = []
    for s, w in valcases.scalar_corpus() + valcases.schema_batch(ctx, ctx.n(80, 600), customs=False):
        cases += valcases.value_cases(ctx, s, w, perturb=ctx.n(14, 40), zoo=ctx.n(3, 8), inject=ctx.n(2, 6))
    cases += valcases.list_form_value_cases(ctx)
    from .. import hostile
    cases += hostile.defaulting_dict_cases()
    cases += hostile.sentinel_value_cases()
    cases += hostile.same_name_alias_cases()
    cases += hostile.shared_object_cases()
    cases += hostile.special_key_cases()
    cases += hostile.line_break_and_odd_value_cases()
    for c in cases:
        valcorr.run_real(c)
        valcorr.prepare(c)
    ctx.count("skipped_unencodable", sum(1 for c in cases if c.skip))
    oracle(ctx, cases)
    hostile.alias_target_probe(ctx)
    dis = valcorr.compare(cases, ctx, view="verdict")
    for c, detail in dis[:10]:
        ctx.breakage("correspondence", "validator verdict differs between model and code",
                     schema=safe_repr(c.schema), value=safe_repr(c.value), detail=detail, request=c.req)
    ctx.cov["corr_disagreements"] = len(dis)
    if not ctx.quick():
        # thorough: the whole small scope (every schema of a small grammar to depth 2 x a fixed value universe), with the
        # independent Conforms oracle on every case
        from .. import smallscope
        smallscope.validate_scope(ctx, view="verdict", oracle=oracle, what="validator verdict")
    for c in cases[:400:67]:
        ctx.sample({"schema": safe_repr(c.schema), "value": safe_repr(c.value), "tag": c.tag,
                    "errors": [type(e).__name__ for e in (c.real or [])]})


def replay(path):
    print(open(path).read()[:6000])
    return 0


MANIFEST = dict(
    category="proof",
    technique="Lean 4 theorem validate_iff_conforms (mutual induction over schemas) + differential correspondence"
              " + validator translator (check programs extracted from the source, model = interpreter proved for all inputs)",
    text="Theorem: for every schema and value the model validator returns no errors iff Conforms holds, where Conforms is "
         "the declarative meaning of a schema written from the property text; tie: verdicts of model and code compared on "
         "generated cases every run; search: an independent Python Conforms against the real validate."
         " Translator: the statement sequences of the scalar Validator.visit_* methods and of the container preludes are extracted from the source on every run (Gen/ValidatorProg.lean) and validateScalar_eq_extracted / listPrelude_eq_extracted / validateP_list_prelude prove the hand model equal to the interpreter on them for every input. Source pins: the normalised text of every anchor file is compared with the text the model was last validated against; a changed file is a broken obligation (no-failing-input-found unless the search finds an input).",
    note="Trusted: Lean kernel + standard axioms, the hand model (tied by sampling), codec, CPython re.search (table), "
         "executable IEEE rounding in the driver.")
