"""C10 — a declaration either fails cleanly or yields a self-consistent schema."""
import itertools

from ..common import safe_repr
from .. import declcorr, gen_chain as GC, runner
from ..common import d42  # noqa: F401
from niltype import Nil
from d42 import schema, validate
from d42.declaration import DeclarationError
from d42.declaration.types import ListSchema, Schema

MODULE = "D42.Props.C10Containers"
THEOREMS = ["decl_error_kind", "decl_run_error_kind", "redeclare_rejected", "ok_means_unguarded", "fresh_selfConsistent",
            "decl_preserves_selfConsistent", "selfConsistent_nan_counterexample",
            "runScalar_selfConsistent", "pinned_conforms", "pinned_validates", "built_example",
            "D42.Gen.Guards.writes_guarded", "D42.Gen.Guards.conflict_symmetric", "D42.Gen.Guards.value_blocks_nothing"]
FILES = ["D42/Model/Data.lean", "D42/Model/Validate.lean", "D42/Model/Decl.lean", "D42/Gen/Guards.lean", "D42/Spec/Conforms.lean", "D42/Props/C02.lean", "D42/Props/C10.lean", "D42/Props/C06.lean", "D42/Props/C08.lean", "D42/Props/C10Containers.lean"]

EVIDENCE = dict(
    level="proof",
    checker_cmd="lake build D42.Props.C10Containers D42.Gen.Guards d42model && lake env lean <#print axioms audit>",
    trusted=["Lean kernel; standard axioms", "D42/Gen/Guards.lean regenerated from d42/declaration/types/*.py on this run (ast extractor, "
             "idioms: `if <atoms or-ed>: raise make_already_declared_error(self)`, `props.update(k=...)`)",
             "declaration model tied to the code by the chain-outcome correspondence of this run"],
    rule="call chains of length <= 4 over every refinement method of every type, arguments from valid / boundary / contradictory / "
         "wrongly-typed universes (Ellipsis, Nil, bool-as-int, negative lengths, NaN); plus every ordered pair of methods with "
         "boundary arguments; non-trivial = chain length >= 2")


def fixed_value(s):
    """(True, v) when the schema carries a fixed value or a fully fixed element list"""
    v = s.props.get("value")
    if v is not Nil:
        return True, v
    if isinstance(s, ListSchema):
        els = s.props.get("elements")
        if els is not Nil and len(els) > 0 and all(isinstance(e, Schema) for e in els):
            vals = []
            for e in els:
                ok, x = fixed_value(e)
                if not ok:
                    return False, None
                vals.append(x)
            return True, vals
    return False, None


def snapshot(s):
    return (safe_repr(s), {k: safe_repr(s.props.get(k)) for k in s.props})


def oracle(ctx, c):
    ctx.case((c.facade, safe_repr(c.ops)), len(c.ops) >= 2)
    for recv, op, (kind, res) in c.trace:
        ctx.count("calls")
        ctx.count("method:%s.%s" % (c.facade, op[0]))
        info = dict(receiver=safe_repr(recv), call=safe_repr(op), facade=c.facade, py_schema=recv if kind == "exc" else res)
        if kind == "exc":
            if isinstance(res, TypeError) and op[0] == "anycall" and len(op[1]) == 0:
                ctx.count("arity_errors_ignored")
                continue
            if not isinstance(res, DeclarationError):
                ctx.violation("a declaration call raised %s (not DeclarationError)" % type(res).__name__,
                              exception=safe_repr(res), **info)
            continue
        ok, v = fixed_value(res)
        if ok:
            ctx.count("results_with_fixed_value")
            try:
                errs = validate(res, v).get_errors()
            except Exception as e:  # noqa: BLE001
                errs = [e]
            if errs:
                ctx.violation("a declared schema rejects its own fixed value", result=safe_repr(res), fixed=safe_repr(v),
                              errors=[safe_repr(e) for e in errs[:3]], **info)
        # re-declaring what was just declared is rejected
        try:
            again = GC.apply_real(res, op)
            ctx.violation("re-declaring an already declared property was accepted", result=safe_repr(res), again=safe_repr(again), **info)
        except DeclarationError:
            ctx.count("redeclare_rejected")
        except TypeError:
            pass
        except Exception as e:  # noqa: BLE001
            ctx.violation("re-declaring raised %s" % type(e).__name__, result=safe_repr(res), **info)


def run(ctx):
    from .. import extract_guards
    ok, msg = extract_guards.run()
    if not ok:
        ctx.breakage("translation", "guard extraction failed: " + msg)
    runner.prove(ctx, MODULE, THEOREMS, FILES)
    from .. import limits
    limits.huge_int_probe(ctx, "C10")
    limits.recursion_probe(ctx, "C10")
    limits.declaration_corner_probe(ctx)
    limits.special_key_declaration_probe(ctx)
    limits.receiver_after_rejection_probe(ctx)
    cases = []
    for _ in range(ctx.n(3000, 30000)):
        facade, ops = GC.gen_chain(ctx.rnd, 4)
        cases.append(declcorr.ChainCase(facade, ops))
    # every ordered pair of methods of a type, a few argument draws each
    for facade, methods in GC.METHODS.items():
        for m1, m2 in itertools.product(methods, repeat=2):
            for _ in range(ctx.n(6, 30)):
                ops = []
                for m in (m1, m2):
                    ops.append((m, GC.gen_any_args(ctx.rnd) if m == "anycall" else GC.gen_arg(ctx.rnd, facade, m)))
                cases.append(declcorr.ChainCase(facade, ops))
    # falsy-argument sweep: a constraint declared with 0 / False / "" / 0.0 first, then every method with several arguments
    FALSY = {
        "str": [("len", (0,)), ("len", (False,)), ("len", (0, ...)), ("len", (..., 0)), ("len", (0, 0)), ("alphabet", ("",)),
                ("contains", ("",)), ("regex", ("",)), ("call", ("",))],
        "int": [("min", (0,)), ("max", (0,)), ("call", (0,)), ("call", (False,)), ("min", (False,))],
        "float": [("min", (0.0,)), ("max", (0.0,)), ("call", (0.0,)), ("min", (-0.0,))],
        "list": [("len", (0,)), ("len", (0, ...)), ("len", (..., 0)), ("call", ([],))],
        "bool": [("call", (False,))], "bytes": [("call", (b"",))],
        "dict": [("call", ({},))],
    }
    SECOND = {"str": ["", "abc", "a"], "int": [0, 1, -1], "float": [0.0, 1.5, -1.0], "bool": [True, False], "bytes": [b"", b"x"]}
    for facade, firsts in FALSY.items():
        for first in firsts:
            for m in GC.METHODS[facade]:
                args2 = []
                if m == "call" and facade in SECOND:
                    args2 = [(x,) for x in SECOND[facade]]
                elif m in ("min", "max") and facade in SECOND:
                    args2 = [(x,) for x in SECOND[facade]]
                else:
                    args2 = [GC.gen_any_args(ctx.rnd) if m == "anycall" else GC.gen_arg(ctx.rnd, facade, m) for _ in range(4)]
                for a in args2:
                    cases.append(declcorr.ChainCase(facade, [first, (m, a)]))
    # ints beyond the float range at every argument position of the int refinements, consistent and contradictory
    H = 10 ** 400
    for ops in ([("call", (0,)), ("min", (H,))], [("call", (H,)), ("max", (0,))], [("call", (0,)), ("max", (5,)), ("min", (H,))],
                [("call", (H,)), ("min", (0,))], [("min", (-H,)), ("max", (H,))], [("min", (H,)), ("max", (-H,))], [("call", (-H,)), ("min", (-H,)), ("max", (-H,))],
                [("min", (H,)), ("call", (0,))], [("max", (-H,)), ("call", (0,))], [("call", (H,)), ("call", (H,))]):
        cases.append(declcorr.ChainCase("int", list(ops)))
    for ops in ([("call", (1.5,)), ("min", (float("inf"),))], [("call", (1.5,)), ("max", (float("-inf"),))], [("min", (1e308,)), ("max", (-1e308,))],
                [("call", (1e308,)), ("precision", (2,))], [("call", (5e-324,)), ("min", (1e-323,))]):
        cases.append(declcorr.ChainCase("float", list(ops)))
    # characters special to str.format / %-formatting / regex in values, alphabets, substrings, patterns: every ordered
    # pair of refinements after every value (an error message built from the repr of the schema so far must still be a
    # DeclarationError)
    from .C11 import UNIVERSE
    for sp in (UNIVERSE["str#special"], UNIVERSE["str#almost"]):
        for v in sp["values"]:
            for o1, o2 in itertools.permutations(sp["ops"], 2):
                cases.append(declcorr.ChainCase("str", ([("call", (v,))] if v is not None else []) + [o1, o2]))
            for o1 in sp["ops"]:
                cases.append(declcorr.ChainCase("str", ([("call", (v,))] if v is not None else []) + [o1]))
    sp = UNIVERSE["str#special"]
    for v in ("{}", "a{0}", "%d", "{x}"):
        for ops in ([("call", (v,)), ("call", (v,))], [("call", (v,)), ("len", (99,))], [("call", (v,)), ("alphabet", ("z",))],
                    [("alphabet", (v,)), ("alphabet", (v,))], [("contains", (v,)), ("len", (..., 0))], [("contains", (v,)), ("alphabet", ("z",))]):
            cases.append(declcorr.ChainCase("str", list(ops)))
    # a fixed float value and bounds within the validator's tolerance of it but on its wrong side, in every order
    for v, lo_bad, hi_bad in ((0.3, 0.1 + 0.2, 0.3 - 6e-17), (1.5, 1.5 + 1e-12, 1.5 - 1e-12), (1e9, 1e9 + 0.5, 1e9 - 0.5), (-2.0, -2.0 + 1e-13, -2.0 - 1e-13)):
        for ops in ([("call", (v,)), ("min", (lo_bad,))], [("call", (v,)), ("max", (hi_bad,))], [("min", (lo_bad,)), ("call", (v,))],
                    [("max", (hi_bad,)), ("call", (v,))], [("call", (v,)), ("min", (v,)), ("max", (hi_bad,))], [("min", (lo_bad,)), ("max", (lo_bad + 1,)), ("call", (v,))],
                    [("call", (v,)), ("precision", (3,)), ("min", (lo_bad,))], [("min", (v,)), ("max", (hi_bad,))]):
            cases.append(declcorr.ChainCase("float", list(ops)))
    # arguments of a NEIGHBOURING numeric kind at every position of every numeric refinement: ints (small, beyond 2**53, beyond
    # the float range), bools, Decimal / Fraction / complex / numeric strings for float methods; floats (integral, huge,
    # non-finite) and bools for int methods
    import decimal
    import fractions
    near_float = [1, 0, -1, True, 2 ** 53 + 1, 2 ** 70, 10 ** 400, -10 ** 400, decimal.Decimal("1.5"), fractions.Fraction(1, 2), 1 + 0j, "1.5", None]
    near_int = [1.0, 0.0, 1.5, 1e300, float("inf"), float("nan"), True, False, decimal.Decimal(1), "1", None, 2 ** 70]
    for a in near_float:
        for ops in ([("call", (a,))], [("min", (a,))], [("max", (a,))], [("call", (1.5,)), ("min", (a,))], [("call", (1.5,)), ("max", (a,))],
                    [("min", (0.5,)), ("max", (a,))], [("max", (2.5,)), ("min", (a,))], [("precision", (a,))], [("call", (1.5,)), ("precision", (a,))]):
            cases.append(declcorr.ChainCase("float", list(ops)))
    for a in near_int:
        for ops in ([("call", (a,))], [("min", (a,))], [("max", (a,))], [("call", (1,)), ("min", (a,))], [("call", (1,)), ("max", (a,))],
                    [("min", (0,)), ("max", (a,))]):
            cases.append(declcorr.ChainCase("int", list(ops)))
    for a in near_int + near_float:
        for facade in ("str", "list"):
            for ops in ([("len", (a,))], [("len", (a, ...))], [("len", (..., a))], [("len", (0, a))]):
                cases.append(declcorr.ChainCase(facade, list(ops)))
    # value, then one bound, then the other — every small combination, both orders (a later check must not shadow an earlier one)
    R = range(-2, 4)
    for v in R:
        for b1 in R:
            for b2 in R:
                cases.append(declcorr.ChainCase("int", [("call", (v,)), ("min", (b1,)), ("max", (b2,))]))
                cases.append(declcorr.ChainCase("int", [("call", (v,)), ("max", (b1,)), ("min", (b2,))]))
    for v in (0.0, 1.5, -1.0):
        for b1 in (-1.0, 0.0, 1.0, 1.5, 2.0):
            for b2 in (-1.0, 0.0, 1.0, 1.5, 2.0):
                cases.append(declcorr.ChainCase("float", [("call", (v,)), ("min", (b1,)), ("max", (b2,))]))
                cases.append(declcorr.ChainCase("float", [("call", (v,)), ("max", (b1,)), ("min", (b2,)), ("precision", (1,))]))
    for v in ("", "ab", "abc"):
        for a in (0, 1, 2, 3):
            for b in (0, 1, 2, 3):
                cases.append(declcorr.ChainCase("str", [("call", (v,)), ("len", (a, b))]))
                cases.append(declcorr.ChainCase("str", [("call", (v,)), ("len", (a, ...)), ("alphabet", ("ab",))]))
                cases.append(declcorr.ChainCase("str", [("call", (v,)), ("contains", ("b",)), ("len", (..., b))]))
    # long / wide arguments: a value with many letters outside the alphabet, long substrings, big length bounds, wide element lists
    longv = "0123abcdefghijklmnopqrstuvwxyz42"
    for ops in ([("call", (longv,)), ("alphabet", ("0123456789",))], [("call", (longv,)), ("alphabet", (longv[:12],))],
                [("alphabet", ("0123456789",)), ("call", (longv,))], [("call", (longv,)), ("contains", ("z" * 20,))],
                [("call", (longv,)), ("len", (len(longv) + 1,))], [("call", (longv,)), ("len", (..., len(longv) - 1))],
                [("call", ("x" * 300,)), ("len", (300,)), ("alphabet", ("xy",))], [("call", ("x" * 300,)), ("regex", ("^y",))],
                [("contains", ("q" * 50,)), ("len", (..., 49))], [("alphabet", ("ab",)), ("contains", ("abc" * 10,))]):
        cases.append(declcorr.ChainCase("str", list(ops)))
    els = [schema.int(i) for i in range(20)]
    for ops in ([("call", (list(els),)), ("len", (19,))], [("call", (list(els),)), ("len", (21, ...))], [("call", (list(els) + [...],)), ("len", (19,))],
                [("call", (list(els),)), ("len", (20,))], [("call", (list(els),)), ("len", (21,))], [("call", (list(els),)), ("len", (40,))],
                [("call", ([schema.int(1), schema.int(2)],)), ("len", (3,))], [("call", ([schema.int(1)],)), ("len", (2,))],
                [("call", ([],)), ("len", (1,))], [("call", ([schema.int(1), schema.int(2)],)), ("len", (2, 2))],
                [("call", ([schema.int(1), schema.int(2)],)), ("len", (3, 4))], [("call", ([schema.int(1), schema.int(2)],)), ("len", (..., 1))], [("call", ([...] + list(els) + [...],)), ("len", (..., 19))]):
        cases.append(declcorr.ChainCase("list", list(ops)))
    # every UUID family as a fixed value: v4, v1/v3/v5, and the non-RFC-4122 variants whose `.version` is None
    import uuid as _uuid
    for u in GC.U4 + GC.U_NOT4 + [_uuid.UUID(int=0), _uuid.UUID(int=2 ** 128 - 1), _uuid.UUID("00000000-0000-4000-0000-000000000000"),
                                   _uuid.UUID("00000000-0000-4000-c000-000000000000"), _uuid.UUID("00000000-0000-4000-e000-000000000000")]:
        cases.append(declcorr.ChainCase("uuid4", [("call", (u,))]))
        cases.append(declcorr.ChainCase("uuid4", [("call", (u,)), ("call", (u,))]))
    for c in cases:
        # receiver unchanged: snapshot before, compare after
        declcorr.run_real(c)
    for c in cases:
        oracle(ctx, c)
    dis = declcorr.compare(cases, ctx)
    for c, detail in dis[:10]:
        ctx.breakage("correspondence", "declaration outcome differs between model and code",
                     chain=f"schema.{c.facade}" + "".join(f".{m}{a!r}" for m, a in c.ops), detail=detail, request=c.req)
    ctx.cov["corr_disagreements"] = len(dis)
    for c in cases[:2000:400]:
        ctx.sample({"chain": f"schema.{c.facade}" + "".join(f".{m}{a!r}" for m, a in c.ops), "outcome": safe_repr(c.outcome)[:200]})


def replay(path):
    print(open(path).read()[:6000])
    return 0


MANIFEST = dict(
    category="proof",
    technique="Lean 4 theorems decl_error_kind / redeclare_rejected / decl_preserves_selfConsistent / pinned_conforms over the declaration model + guard tables regenerated from "
              "the source (ast translator, facts by `decide`) + chain-outcome correspondence",
    text="Theorems in Props/C10.lean: every failure of a refinement call in the model is DeclarationError for arguments of any "
         "type, and a call whose guarded props are already declared is rejected; an accepted call keeps the fixed value of a scalar "
         "conforming (decl_preserves_selfConsistent, runScalar_selfConsistent for chains), and (Props/C10Containers.lean, "
         "pinned_conforms) the completely pinned value of any element list / key table built by any accepted chain conforms to the "
         "schema at every nesting depth; the already-declared guards are extracted from "
         "the current source into D42/Gen/Guards.lean on every run and the model is proved to follow that table; tie: outcome "
         "(schema or exception class) of model and code compared on random chains (len<=4) and all ordered method pairs; search: "
         "exception type, self-consistency of fixed values via the real validate, re-declaration on the real code."
         " Source pins: the normalised text of every anchor file is compared with the text the model was last validated against; a changed file is a broken obligation (no-failing-input-found unless the search finds an input).",
    note="Partial under NoNaN (K6: schema.float(nan) rejects its own value). Trusted: Lean kernel + standard axioms, the ast "
         "extractor (~120 lines) and its idioms, hand model (sampling tie), codec.")
