"""Runs in a fresh interpreter (its own PYTHONHASHSEED): builds the schema sequence from the given harness seed,
then for each RNG seed k prints repr of the fake() sequence after Random().set_seed(k), twice."""
import json
import random
import sys


def main():
    verif, harness_seed, n, with_neg = sys.argv[1], int(sys.argv[2]), int(sys.argv[3]), sys.argv[4] == "1"
    nan_seed = sys.argv[4] == "2"
    eq_seeds = sys.argv[4] in ("3", "4")        # seeds that are equal under == but seed the generator differently
    sys.path.insert(0, verif)
    from harness.gen_schema import SchemaGen
    from harness.common import d42  # noqa: F401
    from d42 import fake, schema
    from d42.generation import Random
    rnd = random.Random(harness_seed)
    g = SchemaGen(rnd, max_depth=3, clock=False, customs=False)
    schemas = []
    while len(schemas) < n:
        s, w = g.top()
        if not with_neg and has_neg(s):
            continue
        schemas.append(s)
    else_directed = [
        # open-ended repeats before and after a repeat whose minimum is above the generator's default cap, long strings,
        # long lists: anything a generator might remember from one fake() to the next shows up as a difference between the
        # first pass (cold process) and the second
        schema.str.regex(r"a*b*c*d*e*f*g*h*"), schema.str.regex(r"(x|y)+\d*[ab]{2,}k*"), schema.str.regex(r"\w*-\d+-[a-c]*"),
        schema.str.regex(r"[\w.-]{12}"), schema.str.regex(r"[\d,]{8}x[\w ]+"), schema.str.regex(r"[a\d_]{6}[\w\d.]{6}"),
        schema.str.regex(r"z{40,}"), schema.str.regex(r"(ab){35,}c*"),
        schema.str.regex(r"a*b*c*d*e*f*g*h*"), schema.str.regex(r"p+q+r+s+t+u+v+w+"),
        schema.str.len(50, ...), schema.str.len(0, 3), schema.list(schema.int).len(40, ...), schema.list(schema.int),
        schema.str.alphabet("xy").len(45, ...), schema.str.alphabet("xy"), schema.int.min(2 ** 70), schema.int,
        schema.float.min(1e30), schema.float, schema.str.contains("q" * 40), schema.str.contains("q"),
        # alphabets with repeated letters, mixed case, non-ASCII (anything de-duplicated or re-ordered through a set shows up
        # across interpreters with different hash seeds)
        schema.str.alphabet("aabc").len(8), schema.str.alphabet("0123456789abcdefABCDEFabcdef").len(24),
        schema.str.alphabet("zyxzyx").contains("zz").len(6, 9), schema.str.alphabet("éèêé☃").len(5), schema.str.alphabet("ba"),
        schema.list(schema.str.alphabet("1223334444")).len(3), schema.dict({"k": schema.str.alphabet("mississippi").len(4)}),
        schema.bytes, schema.list([schema.int, schema.str.alphabet("aab"), ...]),
        # floats on a precision grid with the (long) default bounds and with long declared ones
        schema.float.precision(3), schema.float.precision(1), schema.float.min(-123456789.123456789).precision(6),
        schema.list(schema.float.precision(2)).len(3), schema.float.max(9.87654321987654321e17).precision(4),
    ]
    # LONG / DEEP: anything counted per call and never reset (depth counters, totals) shifts what later open-ended
    # schemas draw: many fixed-element lists and a deeply nested one, with open-ended lists / dicts before and after
    fixed = schema.list([schema.int, schema.str])
    deepfixed = schema.list([schema.list([schema.list([schema.list([schema.list([schema.int])])])])])
    deeptyped = schema.list(schema.list(schema.list(schema.list(schema.list(schema.int).len(1, 2)).len(1, 2)).len(1, 2)).len(1, 2)).len(1, 2)
    else_directed += [schema.list(schema.int), fixed, fixed, fixed, fixed, fixed, fixed, schema.list(schema.int), deepfixed, schema.list(schema.str),
                      deeptyped, schema.list(schema.int), schema.dict({"a": schema.dict({"b": schema.dict({"c": schema.dict({"d": schema.list(schema.int)})})})}),
                      schema.list(schema.int), schema.any(*[schema.int(i) for i in range(12)]), schema.list(schema.int)]
    from harness import custom
    # custom types may use every primitive of the generator's Random (shuffle_list is used by nothing built in)
    else_directed += [custom.DeckSchema(), schema.dict({"deck": custom.DeckSchema(), "n": schema.int}), schema.list(custom.DeckSchema()).len(2)]
    if not with_neg:
        # open-ended containers FIRST: in the cold first pass nothing has been generated before them
        cold = [schema.list(schema.int), schema.list(schema.str), schema.dict({"a": schema.list(schema.int), "b": schema.str}),
                schema.str, schema.bytes, schema.list(schema.list(schema.int))]
        schemas = cold + else_directed[:3] + schemas[: n // 2] + else_directed[3:] + schemas[n // 2:] + cold
    if with_neg:
        schemas = [schema.str.regex(r"[^a]{6}"), schema.str.regex(r"x[^0-9a-z]+"), schema.list(schema.str.regex(r"[^\w]")).len(3)]
    seeds = (0, 7, 123456789, "seed", 3.5, b"d42-seed", bytearray(b"\x00\x01seed"), -5, 2 ** 70, "")
    if nan_seed:
        # the recorded finding K19: a NaN seed is hashed by object identity
        schemas, seeds = [schema.int, schema.str.len(8), schema.list(schema.int).len(3)], (float("nan"),)
    if sys.argv[4] in ("5", "6"):
        # the values are a function of the seed and of the schemas FAKED — not of what else the process declared: mode 5 declares
        # a zoo of bystander schemas (never faked) first, mode 6 declares nothing else
        if sys.argv[4] == "5":
            bystanders()
        schemas = [schema.float.precision(3), schema.float.precision(1), schema.list(schema.float.precision(2)).len(3), schema.float,
                   schema.int, schema.str.len(6), schema.str.regex(r"[a-f]{4}\d*"), schema.list(schema.int).len(2, 5),
                   schema.dict({"a": schema.float.precision(5), "b": schema.str.alphabet("xyz").len(3)}), schema.bytes]
        seeds = (0, 17, "seed", 3.5)
    if eq_seeds:
        # what a seed gives must not depend on which OTHER seeds the process used before: the same seeds in the opposite
        # order in another interpreter (mode 4) must give the same values per seed
        schemas = [schema.int, schema.str.len(8), schema.list(schema.int).len(3), schema.float]
        seeds = (-3, -3.0, 2 ** 70, 2.0 ** 70, 1, True, 1.0, 0, False, 0.0, -0.0, "1", b"1", bytearray(b"1"), 5, 5.0, "", b"")
        if sys.argv[4] == "4":
            seeds = tuple(reversed(seeds))
    def safe(s):
        try:
            return repr(s)
        except Exception as e:  # noqa: BLE001  (printing is C06's business; here the schema only needs a label)
            return "<%s whose repr raises %s>" % (type(s).__name__, type(e).__name__)
    out = {"schemas": [safe(s) for s in schemas], "runs": {}}
    for k in seeds:
        seqs = []
        for rep in range(2):
            if rep == 1:
                between()       # whatever else the process does between two seeded runs must not matter
            Random().set_seed(k)
            vals = []
            for i, s in enumerate(schemas):
                if rep == 1 and i % 7 == 0:
                    construct_only()    # objects merely CONSTRUCTED after seeding (and between fakes) draw nothing
                try:
                    vals.append(repr(fake(s)))
                except Exception as e:  # noqa: BLE001
                    vals.append("EXC:" + type(e).__name__)
            seqs.append(vals)
        out["runs"][type(k).__name__ + ":" + repr(k) if eq_seeds else repr(k)] = seqs
    print(json.dumps(out))


def between():
    """public objects constructed and used between the seeded runs: other generators with their own alphabets and caps,
    validators, substitutors, representors, unrelated fakes / validations / substitutions"""
    import random as _r
    from d42 import fake, schema, substitute, validate
    from d42.generation import Generator, Random, RegexGenerator
    from d42.representation import Representor
    from d42.substitution import Substitutor
    from d42.validation import Validator
    st = _r.getstate()
    try:
        rg = RegexGenerator(Random(), alphabet={"digits": "01", "word": "xyz", "letters": "-"}, max_repeat=3)
        rg.generate(r"\d\w.[^a]{2,}")
        Generator(Random(), RegexGenerator(Random(), max_repeat=50))
        schema.str.regex(r"q{60,}x*").__accept__(Generator(Random(), RegexGenerator(Random(), alphabet={"letters": "ab"})))
        Validator(), Substitutor(), Representor()
        validate(schema.dict({"a": schema.list(schema.int)}), {"a": [1, "x"]})
        substitute(schema.dict, {"k": [1, 2.0, True]})
        fake(schema.list(schema.str.alphabet("zz9")).len(50))
        repr(schema.any(schema.int, schema.str.len(1, 2)))
    finally:
        _r.setstate(st)


def bystanders():
    """declarations of every kind, compared, printed, validated against and substituted into — but never faked"""
    from d42 import optional, schema, substitute, validate
    zoo = [schema.float.min(0.5).max(2.5).precision(1), schema.float.min(-1.0).max(1.0).precision(3), schema.float(1.25).precision(2),
           schema.float.min(0.1).max(0.3), schema.int.min(1).max(9), schema.int(5), schema.str.len(1, 3).alphabet("ab").contains("a"),
           schema.str.regex(r"\w{40,}x*"), schema.str("abc"), schema.list(schema.int).len(2, 400), schema.list([schema.int, ...]),
           schema.dict({"k": schema.int, optional("o"): schema.str, ...: ...}), schema.any(schema.int, schema.none), schema.bytes(b"x"),
           schema.alias("n", schema.int.min(0))]
    for z in zoo:
        repr(z), z == z, validate(z, None), hash(repr(z))
        try:
            substitute(z, 1)
        except Exception:  # noqa: BLE001
            pass


def construct_only():
    """constructing the public classes (a second Random, generators, visitors, schemas) is not a draw"""
    from d42 import schema
    from d42.generation import Generator, Random, RegexGenerator
    from d42.representation import Representor
    from d42.substitution import Substitutor
    from d42.validation import Validator
    r = Random()
    Generator(r, RegexGenerator(Random()))
    RegexGenerator(Random(), alphabet={"digits": "01"}, max_repeat=7)
    Validator(), Substitutor(), Representor()
    schema.float.min(0.5).max(2.5).precision(1), schema.float.min(-1.0).max(1.0).precision(3), schema.float(1.25).precision(2)
    schema.int.min(1).max(9), schema.str.len(1, 3).alphabet("ab"), schema.list(schema.int).len(2, 4)
    schema.str.regex(r"[a-c]{2}").len  # noqa: B018
    schema.list(schema.int).len(1, 3) | schema.dict({"a": schema.float.min(0.0)})


def has_neg(s):
    from harness import findings
    return findings.has_negated_class(s)


if __name__ == "__main__":
    main()
