"""S-expressions: nested python lists of atoms (str). Printing and parsing."""


def dumps(e):
    out = []
    _dump(e, out)
    return "".join(out)


def _dump(e, out):
    if isinstance(e, (list, tuple)):
        out.append("(")
        first = True
        for x in e:
            if not first:
                out.append(" ")
            first = False
            _dump(x, out)
        out.append(")")
    else:
        out.append(str(e))


def loads(s):
    toks = s.replace("(", " ( ").replace(")", " ) ").split()
    stack = [[]]
    for t in toks:
        if t == "(":
            stack.append([])
        elif t == ")":
            top = stack.pop()
            stack[-1].append(top)
        else:
            stack[-1].append(t)
    assert len(stack) == 1 and len(stack[0]) == 1, s[:200]
    return stack[0][0]
