"""An independent evaluation of "value conforms to the meaning of schema", written from the text of
property C02 and sharing no code with d42's validator. It only reads declared props."""
import datetime
import math
import re
from uuid import UUID

from . import common  # noqa: F401
from . import custom
from niltype import Nil
from d42.declaration.types import (AnySchema, BoolSchema, BytesSchema, DateSchema, DateTimeSchema, DictSchema,
                                   FloatSchema, GenericTypeAliasSchema, IntSchema, ListSchema, NoneSchema,
                                   StrSchema, UUID4Schema)


def _p(s, name):
    v = s.props.get(name)
    return None if v is Nil else v


def _len_ok(s, n):
    ln, mn, mx = _p(s, "len"), _p(s, "min_len"), _p(s, "max_len")
    if ln is not None and n != ln:
        return False
    if mn is not None and n < mn:
        return False
    if mx is not None and n > mx:
        return False
    return True


def _float_equal(v, x, precision):
    if precision is None:
        return math.isclose(v, x)
    scale = 10 ** precision
    a, b = v * scale, x * scale
    if not (math.isfinite(a) and math.isfinite(b)):
        return v == x
    return round(a) == round(b)


def conforms(s, v):
    if isinstance(s, custom.FWD_CLASSES):
        return conforms(s.props.inner, v)
    if isinstance(s, GenericTypeAliasSchema):
        return conforms(s.props.type, v)
    if isinstance(s, NoneSchema):
        return v is None
    if isinstance(s, BoolSchema):
        if not isinstance(v, bool):
            return False
        x = _p(s, "value")
        return x is None or v == x
    if isinstance(s, IntSchema):
        if not isinstance(v, int):
            return False
        x, mn, mx = _p(s, "value"), _p(s, "min"), _p(s, "max")
        if x is not None and v != x:
            return False
        if mn is not None and not (mn <= v):
            return False
        if mx is not None and not (v <= mx):
            return False
        return True
    if isinstance(s, FloatSchema):
        if not isinstance(v, float):
            return False
        x, mn, mx = _p(s, "value"), _p(s, "min"), _p(s, "max")
        if x is not None and not _float_equal(v, x, _p(s, "precision")):
            return False
        if mn is not None and not (mn <= v):
            return False
        if mx is not None and not (v <= mx):
            return False
        return True
    if isinstance(s, StrSchema):
        if not isinstance(v, str):
            return False
        x = _p(s, "value")
        if x is not None and v != x:
            return False
        if not _len_ok(s, len(v)):
            return False
        al, sub, pat = _p(s, "alphabet"), _p(s, "substr"), _p(s, "pattern")
        if al is not None and any(c not in al for c in v):
            return False
        if sub is not None and sub not in v:
            return False
        if pat is not None and re.search(pat, v) is None:
            return False
        return True
    if isinstance(s, BytesSchema):
        x = _p(s, "value")
        return isinstance(v, bytes) and (x is None or v == x)
    if isinstance(s, UUID4Schema):
        x = _p(s, "value")
        return isinstance(v, UUID) and v.version == 4 and (x is None or v == x)
    if isinstance(s, DateTimeSchema):
        x = _p(s, "value")
        return isinstance(v, datetime.datetime) and (x is None or v == x)
    if isinstance(s, DateSchema):
        x = _p(s, "value")
        return isinstance(v, datetime.date) and (x is None or v == x)
    if isinstance(s, ListSchema):
        if not isinstance(v, list):
            return False
        if not _len_ok(s, len(v)):
            return False
        t, els = _p(s, "type"), _p(s, "elements")
        if t is not None:
            return all(conforms(t, x) for x in v)
        if els is None:
            return True
        els = list(els)
        n = len(els)
        lead = n >= 1 and els[0] is Ellipsis
        trail = n >= 2 and els[-1] is Ellipsis
        core = els[(1 if lead else 0):(n - 1 if trail else n)]
        k = len(core)
        if lead and trail:
            return any(all(conforms(core[j], v[i + j]) for j in range(k)) for i in range(0, len(v) - k + 1))
        if trail:
            return len(v) >= k and all(conforms(core[j], v[j]) for j in range(k))
        if lead:
            return len(v) >= k and all(conforms(core[j], v[len(v) - k + j]) for j in range(k))
        return len(v) == k and all(conforms(core[j], v[j]) for j in range(k))
    if isinstance(s, DictSchema):
        if not isinstance(v, dict):
            return False
        keys = _p(s, "keys")
        if keys is None:
            return True
        relaxed = any(k is Ellipsis for k in keys)
        for k, (sub, opt) in keys.items():
            if k is Ellipsis:
                continue
            if k in v:
                if not conforms(sub, v[k]):
                    return False
            elif not opt:
                return False
        if not relaxed:
            for k in v:
                if k not in keys:
                    return False
        return True
    if isinstance(s, AnySchema):
        ts = _p(s, "types")
        if ts is None:
            return True
        return any(conforms(t, v) for t in ts)
    raise TypeError(f"conforms: unknown schema class {type(s).__name__}")
