"""Translator: d42/utils/_from_native.py (the isinstance ladder) and the non-recursive `Substitutor.visit_*` methods of
d42/substitution/_substitutor.py -> lean/D42/Gen/SubstProg.lean (`D42.SP.FNStep`, `D42.SP.ScalarSubst`,
lean/D42/Model/SubstProg.lean). Statements are normalised with `ast.unparse`; anything that is not one of the recognised
idioms is an ExtractionError (reported by the checks as a broken obligation)."""
import ast
import os
import re

from . import lake
from .common import REPO, VERIF
from .extract_validator import ExtractionError

OUT = os.path.join(VERIF, "lean", "D42", "Gen", "SubstProg.lean")
SCALARS = ["none", "bool", "int", "float", "str", "bytes", "uuid4", "datetime", "date"]

CTOR = {"bool": "BoolSchema", "int": "IntSchema", "float": "FloatSchema", "str": "StrSchema", "bytes": "BytesSchema",
        "datetime": "DateTimeSchema", "date": "DateSchema"}
INST = re.compile(r"^isinstance\(value, (?P<t>\w+)\)$")
UUID = re.compile(r"^isinstance\(value, UUID\) and value\.version == (?P<v>\d+)$")
LIST_BODY = "return ListSchema()([from_native(x) for x in value])"
DICT_BODY = ("if any((is_ellipsis(key) or isinstance(key, optional) for key in value)):\n    raise ValueError(value)\n"
             "return DictSchema()({key: from_native(val) for key, val in value.items()})")

VALIDATE = "result = schema.__accept__(self._validator, value=value)"
RAISE = "if result.has_errors():\n    raise make_substitution_error(result, self._formatter)"
RET_SET = "return schema.__class__(schema.props.update(value=value))"
RET_KEEP = "return schema.__class__(schema.props)"


def ladder():
    src = open(os.path.join(REPO, "d42/utils/_from_native.py")).read()
    tree = ast.parse(src)
    fns = [n for n in tree.body if isinstance(n, ast.FunctionDef)]
    if [f.name for f in fns] != ["from_native"]:
        raise ExtractionError("_from_native.py: expected exactly one function, from_native")
    body = fns[0].body
    if len(body) != 1 or not isinstance(body[0], ast.If):
        raise ExtractionError("from_native: body is not a single if/elif ladder")
    steps = []
    node = body[0]
    while True:
        test = ast.unparse(node.test)
        blk = "\n".join(ast.unparse(s) for s in node.body)
        if test == "value is None":
            if blk != "return NoneSchema()":
                raise ExtractionError("from_native: None branch: " + blk)
            steps.append(".isNone")
        elif UUID.match(test):
            if blk != "return UUID4Schema()(value)":
                raise ExtractionError("from_native: UUID branch: " + blk)
            steps.append(f".instUuid {int(UUID.match(test)['v'])}")
        elif INST.match(test):
            t = INST.match(test)["t"]
            if t == "list":
                if blk != LIST_BODY:
                    raise ExtractionError("from_native: list branch: " + blk)
                steps.append(".list")
            elif t == "dict":
                if blk != DICT_BODY:
                    raise ExtractionError("from_native: dict branch:\n" + blk)
                steps.append(".dict true")
            elif t in CTOR:
                if blk != f"return {CTOR[t]}()(value)":
                    raise ExtractionError(f"from_native: {t} branch: " + blk)
                steps.append(f".inst .{t}")
            else:
                raise ExtractionError(f"from_native: isinstance test against an unknown class {t}")
        else:
            raise ExtractionError("from_native: unrecognised test `" + test + "`")
        if len(node.orelse) == 1 and isinstance(node.orelse[0], ast.If):
            node = node.orelse[0]
            continue
        tail = "\n".join(ast.unparse(s) for s in node.orelse)
        if tail != "raise ValueError(value)":
            raise ExtractionError("from_native: the ladder does not end with `else: raise ValueError(value)`: " + tail)
        break
    return steps


def scalar_substs():
    src = open(os.path.join(REPO, "d42/substitution/_substitutor.py")).read()
    tree = ast.parse(src)
    cls = [n for n in tree.body if isinstance(n, ast.ClassDef) and n.name == "Substitutor"]
    if len(cls) != 1:
        raise ExtractionError("class Substitutor not found")
    methods = {n.name: n for n in cls[0].body if isinstance(n, ast.FunctionDef)}
    fn = methods.get("_from_native")
    want = ("try:\n    return from_native(value)\nexcept ValueError:\n"
            "    raise SubstitutionError(f\"Can't convert {value!r} to schema\")")
    if fn is None or "\n".join(ast.unparse(s) for s in fn.body) != want:
        raise ExtractionError("Substitutor._from_native is not the recognised idiom")
    out = {}
    for ty in SCALARS:
        fn = methods.get("visit_" + ty)
        if fn is None:
            raise ExtractionError(f"Substitutor.visit_{ty} missing")
        body = [ast.unparse(s) for s in fn.body]
        if len(body) != 3 or body[0] != VALIDATE or body[1] != RAISE or body[2] not in (RET_SET, RET_KEEP):
            raise ExtractionError(f"Substitutor.visit_{ty} is not the three-statement idiom:\n" + "\n".join(body))
        out[ty] = body[2] == RET_SET
    return out


def render():
    steps, subs = ladder(), scalar_substs()
    lines = ["/- GENERATED by harness/extract_substitutor.py from d42/utils/_from_native.py and d42/substitution/_substitutor.py"
             " — do not edit. -/", "import D42.Model.SubstProg", "", "namespace D42.Gen.SubstProg", "open D42 D42.SP", "",
             "def ladder : List FNStep :=", "  [" + ",\n   ".join(steps) + "]", ""]
    for ty in SCALARS:
        lines.append(f"def {ty}Subst : ScalarSubst := ⟨true, true, {'true' if subs[ty] else 'false'}⟩")
    lines += ["", "end D42.Gen.SubstProg"]
    return "\n".join(lines) + "\n"


def run():
    try:
        content = render()
    except (ExtractionError, SyntaxError, OSError) as e:
        return False, f"{type(e).__name__}: {e}"
    with lake.Lock():
        lake.write_if_changed(OUT, content)
    return True, ""


if __name__ == "__main__":
    print(run())
