"""Source pins: the normalised text (python `ast.unparse`, docstrings dropped — comments, layout, quoting and redundant
parentheses do not count) of every anchor file of a property, as it was when the hand-written model was last compared with
it (harness/pins.json, regenerated deliberately with tools_pins.py, never at check time).

The hand-written parts of the model are tied to the code by sampling; a source file whose text is no longer the pinned one is
code the model has not been validated against. That is reported as a broken translation obligation — the check then relies
on the correspondence and the model-free search to find a failing input, and reports `no-failing-input-found` otherwise."""
import ast
import difflib
import hashlib
import json
import os

from .common import REPO, VERIF

PINS_FILE = os.path.join(VERIF, "harness", "pins.json")

# files a property depends on beyond the anchors listed in properties.jsonl
EXTRA = {
    # (the seeded changes of wave 11 were made OUTSIDE the anchor files: these are the files through which a property was
    #  broken indirectly — declaration-time consistency checks for C01, the facade / alias for C02, the validation facade and
    #  result object for C03-C05, the representor wherever a message embeds repr(schema), the package wiring for C09 / C18 …)
    "C01": ["d42/declaration/types/_float_schema.py", "d42/declaration/types/_str_schema.py", "d42/declaration/types/_int_schema.py",
            "d42/declaration/types/_list_schema.py"],
    "C02": ["d42/declaration/_schema_facade.py", "d42/declaration/types/_type_alias_schema.py", "d42/declaration/types/_any_schema.py"],
    "C03": ["d42/validation/__init__.py", "d42/validation/_validation_result.py"],
    "C04": ["d42/validation/_validator.py", "d42/validation/__init__.py"],
    "C05": ["d42/validation/__init__.py"],
    "C06": ["d42/declaration/types/_optional.py", "d42/declaration/types/_list_schema.py", "d42/declaration/types/_dict_schema.py",
            "d42/declaration/types/_any_schema.py", "d42/declaration/__init__.py"],
    "C08": ["d42/representation/_representor.py", "d42/validation/_validation_result.py"],
    "C09": ["d42/generation/__init__.py", "d42/generation/_consts.py", "d42/generation/_random.py"],
    "C10": ["d42/declaration/_props.py", "d42/declaration/types/_bool_schema.py", "d42/declaration/types/_bytes_schema.py",
            "d42/declaration/types/_uuid4_schema.py", "d42/declaration/types/_datetime_schema.py",
            "d42/declaration/types/_date_schema.py", "d42/declaration/types/_none_schema.py", "d42/declaration/_schema_facade.py",
            "d42/declaration/types/_type_alias_schema.py", "d42/representation/_representor.py"],
    "C11": ["d42/declaration/_props.py", "d42/declaration/errors/__init__.py"],
    "C12": ["d42/substitution/_validator.py", "d42/representation/_representor.py", "d42/validation/_formatter.py",
            "d42/validation/_validator.py"],
    "C13": ["d42/declaration/types/_optional.py", "d42/validation/_validator.py"],
    "C14": ["d42/declaration/types/_datetime_schema.py", "d42/declaration/types/_date_schema.py", "d42/declaration/types/_uuid4_schema.py",
            "d42/declaration/types/_float_schema.py", "d42/validation/_validator.py"],
    "C15": ["d42/__init__.py", "d42/validation/_validator.py"],
    "C16": ["d42/declaration/types/_any_schema.py"],
    "C18": ["d42/declaration/types/_optional.py", "d42/declaration/_is_ellipsis.py", "d42/utils/__init__.py"],
    "C19": ["d42/utils/__init__.py"],
}


def _strip_docstrings(tree):
    for node in ast.walk(tree):
        if isinstance(node, (ast.Module, ast.ClassDef, ast.FunctionDef, ast.AsyncFunctionDef)):
            b = node.body
            if b and isinstance(b[0], ast.Expr) and isinstance(getattr(b[0], "value", None), ast.Constant) \
                    and isinstance(b[0].value.value, str):
                node.body = b[1:] or [ast.Pass()]
    return tree


def normalise(path):
    src = open(path, encoding="utf-8").read()
    return ast.unparse(_strip_docstrings(ast.parse(src)))


def files_of(prop):
    out = []
    for line in open(os.path.join(VERIF, "properties.jsonl")):
        p = json.loads(line)
        if p["id"] == prop:
            out = list(p["anchors"]["files"])
    for f in EXTRA.get(prop, []):
        if f not in out:
            out.append(f)
    return out


def all_files():
    out = []
    for line in open(os.path.join(VERIF, "properties.jsonl")):
        for f in files_of(json.loads(line)["id"]):
            if f not in out:
                out.append(f)
    return sorted(out)


def regenerate():
    pins = {}
    for f in all_files():
        text = normalise(os.path.join(REPO, f))
        pins[f] = {"sha256": hashlib.sha256(text.encode()).hexdigest(), "text": text}
    with open(PINS_FILE, "w") as fh:
        json.dump(pins, fh, indent=0, sort_keys=True)
    return pins


def check(prop):
    """[(file, short unified diff)] for every anchor file of `prop` whose normalised text differs from its pin"""
    if os.environ.get("VERIF_NO_PINS") == "1":      # diagnostic switch: measure what the search finds without the pins
        return []
    try:
        pins = json.load(open(PINS_FILE))
    except (OSError, ValueError) as e:
        return [("harness/pins.json", f"cannot be read: {e}")]
    out = []
    for f in files_of(prop):
        pin = pins.get(f)
        if pin is None:
            out.append((f, "no pin recorded for this file"))
            continue
        try:
            text = normalise(os.path.join(REPO, f))
        except (OSError, SyntaxError) as e:
            out.append((f, f"cannot be read / parsed: {e}"))
            continue
        if hashlib.sha256(text.encode()).hexdigest() != pin["sha256"]:
            diff = list(difflib.unified_diff(pin["text"].splitlines(), text.splitlines(), "pinned", "current", lineterm="", n=1))
            out.append((f, "\n".join(diff[:60])))
    return out
