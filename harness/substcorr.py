"""Correspondence on the substitution view (resulting schema or exception class) and shared case batches."""
from . import encode, gen_value, model, scripted_random as SR, sexp, valcases
from .common import d42  # noqa: F401
from d42 import substitute


class SubCase:
    __slots__ = ("schema", "witness", "value", "tag", "kind", "result", "req", "I", "skip", "exp")

    def __init__(self, schema, witness, value, tag):
        self.schema, self.witness, self.value, self.tag = schema, witness, value, tag
        self.req = None
        self.skip = None


def partial(v, rnd):
    if isinstance(v, dict) and v and rnd.random() < .6:
        ks = rnd.sample(list(v), rnd.randint(0, len(v)))
        return {k: partial(v[k], rnd) for k in v if k in ks}
    if isinstance(v, list):
        return [partial(x, rnd) for x in v]
    return v


def ellipsize(v, rnd):
    if isinstance(v, list) and v and rnd.random() < .5:
        v = list(v)
        c = rnd.random()
        if c < .25:
            v[0] = ...
        elif c < .5:
            v[-1] = ...
        elif c < .7:
            v = [...] + v
        elif c < .9:
            v = v + [...]
        else:
            v.insert(len(v) // 2, ...)
        return v
    if isinstance(v, dict) and v:
        k = rnd.choice(list(v))
        return {**v, k: (... if rnd.random() < .5 else ellipsize(v[k], rnd))}
    return v


def unconvertible(v, rnd):
    """put a member that from_native cannot convert somewhere inside"""
    bad = rnd.choice([(1, 2), {1}, object(), 1 + 2j, bytearray(b"x"), {...: 1}])
    return gen_value.inject(v, rnd, bad)


def batch(ctx, n, **opts):
    cases = []
    for s, w in valcases.schema_batch(ctx, n, **opts):
        vals = [(w, "witness"), (partial(w, ctx.rnd), "partial")]
        (k, v), _ = SR.generate(s, SR.make_policy("small", ctx.rnd))
        if k == "ok":
            vals += [(v, "generated"), (partial(v, ctx.rnd), "partial")]
        ps = gen_value.perturb(w, ctx.rnd)
        vals += [(x, "perturbed") for x in ctx.rnd.sample(ps, min(ctx.n(6, 14), len(ps)))]
        vals += [(ellipsize(w, ctx.rnd), "ellipsis"), (ellipsize(partial(w, ctx.rnd), ctx.rnd), "ellipsis"), (..., "ellipsis")]
        try:
            vals += [(unconvertible(w, ctx.rnd), "unconvertible")]
        except Exception:
            pass
        if isinstance(w, dict):
            vals += [({**w, "extra!!": 1}, "extrakey")]
        for v, tag in vals:
            cases.append(SubCase(s, w, v, tag))
    return cases


def list_form_cases(ctx):
    """directed: every list form with 1..3 body elements against short value sequences enumerated exhaustively over a
    small member universe that includes members `from_native` cannot convert and relaxed dicts with extra keys"""
    import itertools
    from d42 import schema
    rel = schema.dict({"a": schema.int, ...: ...})
    bodies = [[schema.int], [schema.int, schema.str], [schema.int, schema.int], [rel], [schema.int, rel],
              [schema.str, schema.int, schema.str]]
    members = [1, "a", object(), (1,), {"a": 1, "b": 2}, {"a": 1}]
    cases = []
    for body in bodies:
        forms = [list(body), body + [...], [...] + body, [...] + body + [...]]
        for els in forms:
            s = schema.list(els)
            maxlen = ctx.n(4, 5) if len(body) < 3 else 4
            for n in range(0, maxlen + 1):
                for combo in itertools.product(range(len(members)), repeat=n):
                    if n >= 4 and ctx.rnd.random() < ctx.n(0.7, 0.3):
                        continue
                    v = [members[i] if not isinstance(members[i], (dict, tuple)) else (dict(members[i]) if isinstance(members[i], dict) else members[i]) for i in combo]
                    cases.append(SubCase(s, None, v, "listform"))
    return cases


def run_real(c):
    I = encode.Interner()
    c.I = I
    try:
        es = encode.enc_schema(c.schema, I)
        ev = encode.enc_value(c.value, I)
    except encode.Unencodable as e:
        es = None
        c.skip = str(e)
    try:
        c.result = substitute(c.schema, c.value)
        c.kind = "ok"
    except Exception as e:  # noqa: BLE001
        c.result, c.kind = e, "exc"
    if es is None:
        return
    if c.kind == "ok":
        try:
            c.exp = ["ok", encode.tostr(encode.enc_schema(c.result, I))]
        except encode.Unencodable as e:
            c.exp = ["unenc", str(e)]
    else:
        c.exp = ["exc", type(c.result).__name__]
    c.req = ["subst", es, ev, I.rxtab()]


def compare(cases, ctx):
    todo = [c for c in cases if c.req is not None]
    res = model.run_batch([c.req for c in todo])
    out = []
    for c, r in zip(todo, res):
        ctx.count("substcorr_cases")
        if isinstance(r, str):
            out.append((c, "model driver answered " + r))
            continue
        if r[0] == "exc" and r[1] == "UNMODELLED":
            ctx.count("substcorr_unmodelled")
            continue
        if c.exp[0] == "unenc":
            out.append((c, f"real result is outside the modelled universe ({c.exp[1]}), model says {sexp.dumps(r)[:200]}"))
            continue
        if r != c.exp:
            out.append((c, f"substitution outcome differs:\n real  {sexp.dumps(c.exp)[:500]}\n model {sexp.dumps(r)[:500]}"))
        else:
            ctx.count("substcorr_agree:" + c.exp[0])
    return out
