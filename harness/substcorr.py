"""Correspondence on the substitution view (resulting schema or exception class) and shared case batches."""
from . import encode, gen_value, model, scripted_random as SR, sexp, valcases
from .common import d42, safe_repr  # noqa: F401
from d42 import substitute


class SubCase:
    __slots__ = ("schema", "witness", "value", "tag", "kind", "result", "req", "I", "skip", "exp")

    def __init__(self, schema, witness, value, tag):
        self.schema, self.witness, self.value, self.tag = schema, witness, value, tag
        self.req = None
        self.skip = None


def partial(v, rnd):
    if isinstance(v, dict) and v and rnd.random() < .6:
        ks = rnd.sample(list(v), rnd.randint(0, len(v)))
        return {k: partial(v[k], rnd) for k in v if k in ks}
    if isinstance(v, list):
        return [partial(x, rnd) for x in v]
    return v


def partial_extra(v, rnd, p=.5):
    """like `partial`, and every dict (at any depth) may also get a key no schema declares — the combination a relaxed
    (`...: ...`) dict tolerates in validation but substitution refuses"""
    if isinstance(v, dict):
        ks = rnd.sample(list(v), rnd.randint(0, len(v))) if v else []
        out = {k: partial_extra(v[k], rnd, p) for k in v if k in ks}
        if rnd.random() < p:
            out["extra!!"] = rnd.choice([1, "admin", None])
        return out
    if isinstance(v, list):
        return [partial_extra(x, rnd, p) for x in v]
    return v


def ellipsize(v, rnd):
    if isinstance(v, list) and v and rnd.random() < .5:
        v = list(v)
        c = rnd.random()
        if c < .25:
            v[0] = ...
        elif c < .5:
            v[-1] = ...
        elif c < .7:
            v = [...] + v
        elif c < .9:
            v = v + [...]
        else:
            v.insert(len(v) // 2, ...)
        return v
    if isinstance(v, dict) and v:
        k = rnd.choice(list(v))
        return {**v, k: (... if rnd.random() < .5 else ellipsize(v[k], rnd))}
    return v


def unconvertible(v, rnd):
    """put a member that from_native cannot convert somewhere inside"""
    bad = rnd.choice([(1, 2), {1}, object(), 1 + 2j, bytearray(b"x"), {...: 1}])
    return gen_value.inject(v, rnd, bad)


def batch(ctx, n, **opts):
    cases = []
    for s, w in valcases.schema_batch(ctx, n, **opts):
        vals = [(w, "witness"), (partial(w, ctx.rnd), "partial")]
        (k, v), _ = SR.generate(s, SR.make_policy("small", ctx.rnd))
        if k == "ok":
            vals += [(v, "generated"), (partial(v, ctx.rnd), "partial")]
        ps = gen_value.perturb(w, ctx.rnd)
        vals += [(x, "perturbed") for x in ctx.rnd.sample(ps, min(ctx.n(6, 14), len(ps)))]
        vals += [(ellipsize(w, ctx.rnd), "ellipsis"), (ellipsize(partial(w, ctx.rnd), ctx.rnd), "ellipsis"), (..., "ellipsis")]
        try:
            vals += [(unconvertible(w, ctx.rnd), "unconvertible")]
        except Exception:
            pass
        if isinstance(w, dict):
            vals += [({**w, "extra!!": 1}, "extrakey")]
        if isinstance(w, (dict, list)):
            vals += [(partial_extra(w, ctx.rnd), "partial+extrakey"), (partial_extra(w, ctx.rnd, 1.0), "partial+extrakey")]
        for v, tag in vals:
            cases.append(SubCase(s, w, v, tag))
    return cases


def open_dict_any_cases(ctx, n):
    """directed: unions whose alternatives are relaxed (`...: ...`) dicts with several required keys, against values that
    give a subset of the keys and/or keys nobody declares, bare and nested (validation tolerates both under `...: ...`,
    substitution must not turn that into a schema accepting more than the original)"""
    from d42 import schema, optional
    r = ctx.rnd
    fields = [("id", schema.int.min(1), 5), ("name", schema.str.len(1, 10), "bob"), ("tags", schema.list(schema.str), ["a"]),
              ("ok", schema.bool, True), ("n", schema.none, None)]
    cases = []
    for _ in range(n):
        fs = r.sample(fields, r.randint(1, 3))
        keys = {}
        for k, sc, _w in fs:
            keys[optional(k) if r.random() < .2 else k] = sc
        keys[...] = ...
        alts = [schema.dict(keys)]
        for _ in range(r.randint(0, 2)):
            alts.append(r.choice([schema.none, schema.int, schema.dict({"id": schema.str}), schema.dict({"zz": schema.int, ...: ...}),
                                  schema.dict, schema.list(schema.int)]))
        r.shuffle(alts)
        s = schema.any(*alts)
        full = {k: w for k, _sc, w in fs}
        v = {k: full[k] for k in full if r.random() < .6}
        if r.random() < .7:
            v[r.choice(["role", "extra!!", 7])] = r.choice(["admin", 1, None])
        wrap = r.choice(["bare", "dict", "listT", "listE", "any"])
        if wrap == "dict":
            s, v, full = schema.dict({"k": s, "z": schema.int}), {"k": v}, {"k": full, "z": 1}
        elif wrap == "listT":
            s, v, full = schema.list(s), [v], [full]
        elif wrap == "listE":
            s, v, full = schema.list([schema.int, s]), [1, v], [1, full]
        elif wrap == "any":
            s = schema.any(schema.str, s)
        cases.append(SubCase(s, full, v, "open-dict-any"))
    return cases


def untyped_pair_cases(ctx):
    """directed: positions without a declared type (bare list / dict / any, relaxed dicts, the `...` part of element lists)
    given values that contain scalars equal under `==` but of different kinds (True / 1 / 1.0, False / 0 / 0.0 / -0.0, "1")"""
    import itertools
    from d42 import schema
    scal = [True, 1, 1.0, False, 0, 0.0, -0.0, "1", None]
    cases = []
    for a, b in itertools.permutations(scal, 2):
        for s, v in ((schema.list, [a, b]), (schema.dict, {"x": a, "y": b}), (schema.any, [a, [b]]),
                     (schema.dict({"k": schema.int, ...: ...}), {"k": 5, "x": a, "y": b}),
                     (schema.list([schema.str, ...]), ["s", a, b]), (schema.list(schema.any), [a, b]),
                     (schema.dict({"m": schema.dict}), {"m": {"x": a, "y": [b]}})):
            cases.append(SubCase(s, v, v, "untyped-pair"))
    return cases


def edge_scalars():
    """plain scalars at the edges of their types (every one is plain data from_native must convert)"""
    import datetime
    from .gen_schema import DS, DTS, U4
    return [float("inf"), float("-inf"), 1.7976931348623157e308, -1.7976931348623157e308, 5e-324, 1e-320, 0.1 + 0.2,
            2 ** 63, -2 ** 63 - 1, 2 ** 70, 10 ** 400, -10 ** 400, "", "\x00", "\ud800", "e\u0301", "{}", "%s", "\\", b"", b"\x00\xff",
            U4[0], DTS[0], DS[0], datetime.datetime(2024, 2, 29, 12, 30, tzinfo=datetime.timezone.utc),
            datetime.datetime.min, datetime.datetime.max, datetime.date.min, datetime.date.max, True, False, None, 0, -1]


def untyped_edge_cases(ctx):
    """directed: every edge scalar alone and nested at every position that has no declared type (bare list / dict / any,
    relaxed dicts, the open part of element lists, lists of any) — these reach from_native through the substitutor"""
    from d42 import schema
    cases = []
    for a in edge_scalars():
        for mk in (lambda a: (schema.list, [1.5, a]), lambda a: (schema.dict, {"x": a}), lambda a: (schema.any, a),
                   lambda a: (schema.any, [a, {"k": a}]), lambda a: (schema.dict({"k": schema.int, ...: ...}), {"k": 5, "x": a}),
                   lambda a: (schema.list([schema.str, ...]), ["s", a]), lambda a: (schema.list([..., schema.str]), [a, "s"]),
                   lambda a: (schema.list(schema.any), [a]), lambda a: (schema.dict({"m": schema.dict}), {"m": {"x": [a]}}),
                   lambda a: (schema.any(schema.list, schema.dict), [[a]]), lambda a: (schema.list(schema.list), [[a]])):
            try:
                s, v = mk(a)
            except Exception:  # noqa: BLE001
                continue
            cases.append(SubCase(s, v, v, "untyped-edge"))
    return cases


def relaxed_marker_position_cases(ctx):
    """directed: relaxed dicts whose `...: ...` marker sits first / in the middle / last (declared so, or produced by `+`),
    with keys of every flavour before and after it, substituted with values that give some keys, none, or all"""
    from d42 import optional, schema
    def entries():
        return [("id", schema.int.min(1)), ("name", schema.str.len(1, 8)), (optional("tag"), schema.str("t")), ("n", schema.none)]
    cases = []
    for pos in range(0, 5):
        items = entries()
        items.insert(pos, (..., ...))
        try:
            s = schema.dict(dict(items))
        except Exception:  # noqa: BLE001
            continue
        variants = [s]
        try:
            variants.append(schema.dict({...: ...}) + schema.dict(dict(entries()[:pos])) + schema.dict(dict(entries()[pos:])))
            variants.append(schema.dict(dict(entries()[:2])) + schema.dict({...: ...}) + schema.dict(dict(entries()[2:])))
        except Exception:  # noqa: BLE001
            pass
        for sv in variants:
            for bad in (5, "s", [1], {"id": "x"}, {"id": 7, "name": 5}, None):
                # a union whose alternative is such a dict, given values that match NO alternative (the refusal message prints it)
                cases.append(SubCase(schema.any(sv, schema.int.min(100)), {"id": 7, "name": "ab", "n": None}, bad, "relaxed-marker-position"))
                cases.append(SubCase(schema.dict({"u": schema.any(sv, schema.none)}), {"u": None}, {"u": bad}, "relaxed-marker-position"))
            for v in ({"id": 7}, {}, {"name": "ab"}, {"id": 7, "name": "ab", "n": None}, {"id": 7, "extra": 1}, {"tag": "t"},
                      {"n": None, "id": 2}):
                full = {"id": 7, "name": "ab", "n": None}
                full.update(v)
                cases.append(SubCase(sv, full, v, "relaxed-marker-position"))
                for wrap in (lambda t: schema.list([t, ...]), lambda t: schema.dict({"in": t})):
                    cases.append(SubCase(wrap(sv), [full] if wrap(sv).__class__.__name__ == "ListSchema" else {"in": full},
                                         [v] if wrap(sv).__class__.__name__ == "ListSchema" else {"in": v}, "relaxed-marker-position"))
    return cases


def list_ellipsis_position_cases(ctx):
    """directed: list values of length 1..5 with `...` at EVERY position (and at two positions), substituted into untyped,
    typed, length-bound and element lists, at the root and nested"""
    import itertools
    from d42 import schema
    shapes = [lambda: schema.list, lambda: schema.list.len(3), lambda: schema.list.len(1, 5), lambda: schema.list(schema.int),
              lambda: schema.list([schema.int, schema.int]), lambda: schema.list([schema.int, ...]), lambda: schema.list([..., schema.int]),
              lambda: schema.list([..., schema.int, ...]), lambda: schema.any, lambda: schema.any(schema.list, schema.str)]
    cases = []
    for n in range(1, 6):
        for pos in itertools.chain(([i] for i in range(n)), itertools.combinations(range(n), 2)):
            v = [(... if i in pos else i + 1) for i in range(n)]
            for mk in shapes:
                try:
                    s = mk()
                except Exception:  # noqa: BLE001
                    continue
                cases.append(SubCase(s, [i + 1 for i in range(n)], list(v), "list-ellipsis-position"))
                cases.append(SubCase(schema.dict({"xs": s}), {"xs": [i + 1 for i in range(n)]}, {"xs": list(v)}, "list-ellipsis-position"))
    return cases


def contains_scan_cases(ctx):
    """directed: `[..., a, b, ...]`, `[a, b, ...]` and `[..., a, b]` whose body elements keep something beside a pinned value
    (bounds, lengths, another kind), against values whose matching run starts at EVERY offset 0..3 — and against values
    where an earlier offset matches only a prefix of the body"""
    from d42 import schema
    bodies = [
        (lambda: [schema.int.min(100)], [200], [7, -3, 50]),
        (lambda: [schema.int.min(100), schema.str.len(2)], [200, "ab"], [7, "abc", 50]),
        (lambda: [schema.str.len(2), schema.int.max(0)], ["ab", -5], ["abc", 9, "a"]),
        (lambda: [schema.float.min(1.0).max(2.0)], [1.5], [0.5, 9.5, -1.0]),
        (lambda: [schema.int.min(100), schema.int.min(100)], [150, 160], [120, 7, 8]),       # 120 matches a PREFIX of the body
        (lambda: [schema.list(schema.int).len(2), schema.none], [[1, 2], None], [[1], [1, 2, 3], 0]),
        (lambda: [schema.any(schema.int.min(100), schema.none)], [None], [5, "x", 6]),
    ]
    cases = []
    for mk, run, filler in bodies:
        for off in range(4):
            for trail in range(2):
                v = filler[:off] + run + filler[:trail]
                for form in ("both", "head", "tail"):
                    if (form == "head" and off) or (form == "tail" and trail):
                        continue
                    try:
                        body = mk()
                        s = schema.list(([...] if form != "head" else []) + body + ([...] if form != "tail" else []))
                    except Exception:  # noqa: BLE001
                        continue
                    cases.append(SubCase(s, list(v), list(v), "contains-scan"))
                    cases.append(SubCase(schema.dict({"xs": s}), {"xs": list(v)}, {"xs": list(v)}, "contains-scan"))
    return cases


def special_key_subst_cases(ctx):
    """directed: unions whose dict alternatives have keys special to str.format / %-formatting, substituted with values that
    match some / no alternative"""
    from d42 import optional, schema
    from .hostile import SPECIAL_KEYS
    cases = []
    for k in SPECIAL_KEYS:
        try:
            d = schema.dict({k: schema.int, optional("o"): schema.str})
        except Exception:  # noqa: BLE001
            continue
        for s in (schema.any(d, schema.str), schema.list(schema.any(d, schema.none)), schema.dict({"in": schema.any(d, schema.list(d))})):
            for v in ({k: 1}, {k: "x"}, 5, [{k: 1}], [5], {"in": {k: 1}}, {"in": 5}, {"in": [{k: "x"}]}):
                cases.append(SubCase(s, v, v, "special-key"))
    return cases


def sibling_container_cases(ctx):
    """directed: values with several container members that differ from each other (so that a probe holding ONE of them at
    two positions does not carry the substituted data)"""
    from d42 import schema
    person = lambda: schema.dict({"n": schema.str, "tags": schema.list(schema.str)})   # noqa: E731
    cases = []
    for s, v in ((schema.dict({"owner": person(), "editor": person()}), {"owner": {"n": "ann", "tags": ["a"]}, "editor": {"n": "bob", "tags": ["b"]}}),
                 (schema.list(person()), [{"n": "ann", "tags": []}, {"n": "bob", "tags": ["x"]}]),
                 (schema.dict({"a": schema.list(schema.int), "b": schema.list(schema.int)}), {"a": [1], "b": [2]}),
                 (schema.list([schema.list(schema.int), schema.list(schema.int)]), [[1, 2], [3]]),
                 (schema.dict, {"a": {"x": 1}, "b": {"x": 2}}), (schema.list, [[1], [2]]),
                 (schema.dict({"m": schema.dict({"p": schema.dict({"q": schema.int}), "r": schema.dict({"q": schema.int})})}),
                  {"m": {"p": {"q": 1}, "r": {"q": 2}}})):
        cases.append(SubCase(s, v, v, "sibling-containers"))
    return cases


def subclass_and_degenerate_cases(ctx):
    """directed: values that are instances of a SUBCLASS of what the schema names (datetime into a date schema, bool into an
    int schema, str / int / list / dict subclasses) — the result carries exactly the value given; and degenerate containers
    (a dict schema with NO keys, an element list with no elements, a relaxed dict with only the marker) given empty and
    non-empty values — `{}` declared is not `schema.dict`"""
    import datetime
    from d42 import optional, schema
    from .gen_value import MyDict, MyInt, MyList, MyStr
    dt = datetime.datetime(2024, 2, 29, 12, 30, 15)
    aware = datetime.datetime(2024, 2, 29, 12, 30, tzinfo=datetime.timezone.utc)
    cases = []
    for s, v in ((schema.date, dt), (schema.date, aware), (schema.dict({"d": schema.date}), {"d": dt}), (schema.list(schema.date), [dt, dt.date()]),
                 (schema.any(schema.date, schema.str), dt), (schema.list([schema.date, ...]), [dt]), (schema.date | schema.none, dt),
                 (schema.int, True), (schema.int.min(0), False), (schema.dict({"n": schema.int}), {"n": True}), (schema.list(schema.int), [True, 0, False, 1]),
                 (schema.str, MyStr("abc")), (schema.int, MyInt(3)), (schema.list(schema.int), MyList([1, 2])), (schema.dict({"a": schema.int}), MyDict(a=1)),
                 (schema.any(schema.int, schema.bool), True), (schema.any(schema.bool, schema.int), 1)):
        cases.append(SubCase(s, v, v, "subclass-value"))
    for s in (schema.dict({}), schema.dict({...: ...}), schema.list([]), schema.list([...]), schema.dict({"in": schema.dict({})}),
              schema.list([schema.dict({})]), schema.any(schema.dict({}), schema.int), schema.dict({optional("o"): schema.dict({})}),
              schema.list(schema.dict({})), schema.dict({"l": schema.list([])})):
        for v in ({}, {"a": 1}, [], [1], {"in": {}}, {"in": {"a": 1}}, [{}], [{"a": 1}], {"o": {}}, {"o": {"x": 1}}, {"l": []}, {"l": [1]}, 5):
            cases.append(SubCase(s, v, v, "degenerate-container"))
    return cases


def defaulting_dict_subst_cases(ctx):
    """directed: dict subclasses whose lookup of an ABSENT key answers a default (Counter, defaultdict, __missing__) as the
    substituted value, giving only part of the declared keys: a key that was not given stays as declared"""
    import collections
    from d42 import optional, schema
    from .hostile import Missing
    cases = []
    shapes = [lambda: schema.dict({"passed": schema.int, "failed": schema.int, optional("skipped"): schema.int}),
              lambda: schema.dict({"passed": schema.int.min(0), "tags": schema.list(schema.str), ...: ...}),
              lambda: schema.dict({"r": schema.dict({"passed": schema.int, optional("failed"): schema.int})}),
              lambda: schema.list(schema.dict({"passed": schema.int, optional("failed"): schema.int})),
              lambda: schema.any(schema.dict({"passed": schema.int, "failed": schema.int}), schema.none)]
    vals = [lambda: collections.Counter(passed=3), lambda: collections.defaultdict(int, passed=3), lambda: collections.defaultdict(list, passed=3),
            lambda: Missing(0, {"passed": 3}), lambda: Missing("x", {"passed": 3}), lambda: collections.Counter(), lambda: collections.OrderedDict(passed=3)]
    for mk in shapes:
        for mv in vals:
            s = mk()
            v = mv()
            name = type(s).__name__
            if name == "ListSchema":
                v = [v]
            elif safe_repr(s).startswith("schema.dict({\n    'r'"):
                v = {"r": v}
            full = {"passed": 3, "failed": 0, "tags": []}
            cases.append(SubCase(s, full, v, "defaulting-dict-value"))
    return cases


def untyped_zoo_cases(ctx):
    """directed: values of kinds from_native does NOT convert (tuples, sets, Decimal, bytearray, ranges, opaque objects …)
    alone and nested at every untyped position. On a correct tree substitution refuses them; a tree that lets one through
    must still honour C04 / C05 / C12 for it (the value has no `...` placeholder, so it is a plain value for those)"""
    import decimal
    import fractions
    from d42 import schema
    from .gen_value import MyList, Opaque
    odd = [(1, 2), (), ("a", (1,)), {1, 2}, frozenset({1}), decimal.Decimal("1.5"), fractions.Fraction(1, 3), bytearray(b"ab"),
           range(3), Opaque(), 1 + 2j, memoryview(b"x"), MyList([1, 2]), iter([1]), {"k": (1, 2)}, [(1, 2)], [1, (2, 3)]]
    cases = []
    for a in odd:
        for mk in (lambda a: (schema.dict, {"point": a}), lambda a: (schema.list, [a]), lambda a: (schema.any, a),
                   lambda a: (schema.dict({"k": schema.int, ...: ...}), {"k": 5, "x": a}),
                   lambda a: (schema.list([schema.str, ...]), ["s", a]), lambda a: (schema.list(schema.any), [a, 1]),
                   lambda a: (schema.dict({"m": schema.any}), {"m": a}), lambda a: (schema.any(schema.list, schema.dict), [a])):
            try:
                s, v = mk(a)
            except Exception:  # noqa: BLE001
                continue
            cases.append(SubCase(s, v, v, "untyped-zoo"))
    return cases


def list_window_cases(ctx):
    """directed: element lists WITHOUT `...` that also carry a length window with room above or below their element
    count (declared so, or produced by substituting into a typed list with a window — a two-step sequence), against
    values shorter than, as long as and longer than the element list"""
    from d42 import schema
    cases = []
    mk = [lambda: schema.list([schema.int.min(0), schema.int.min(0)]).len(1, 3), lambda: schema.list([schema.int]).len(1, ...),
          lambda: schema.list([schema.int, schema.str]).len(..., 4), lambda: schema.list([schema.int.min(0)]).len(0, 2),
          lambda: substitute(schema.list(schema.int.min(0)).len(2, ...), [1, 2]), lambda: substitute(schema.list(schema.int).len(1, 3), [5]),
          lambda: substitute(schema.list(schema.str).len(..., 3), ["a", "b"]), lambda: schema.list([]).len(0, 2),
          lambda: schema.dict({"xs": schema.list([schema.int, schema.int]).len(2, 4)}),
          lambda: schema.list(schema.list([schema.int]).len(1, 2)), lambda: schema.any(schema.list([schema.int]).len(1, 3), schema.none)]
    vals = [[], [1], [1, 2], [1, 2, 3], [1, "a"], [1, "a", 2], ["a", "b", "c"], [5], [5, 6], [1, 2, 3, 4]]
    for m in mk:
        try:
            s = m()
        except Exception:  # noqa: BLE001
            continue
        for v in vals:
            from d42.declaration.types import DictSchema, ListSchema
            vv = v
            if isinstance(s, DictSchema):
                vv = {"xs": v}
            elif isinstance(s, ListSchema) and s.props.get("type") is not __import__("niltype").Nil:
                vv = [v, v[:1]]
            cases.append(SubCase(s, None, vv, "list-window"))
    return cases


def float_precision_cases(ctx):
    """directed: floats with more digits than the declared precision (rounding ties, values within half a unit of a bound)
    substituted into float schemas with precision, bare and nested"""
    from d42 import schema
    cases = []
    vals = [1.115, 2.675, 3.142, 3.141, 3.149, 0.125, 1.005, -0.335, 1e-9, 123456.789, 0.1 + 0.2, 2.5]
    for v in vals:
        for mk in (lambda: schema.float.precision(2), lambda: schema.float.precision(1), lambda: schema.float.precision(0),
                   lambda v=v: schema.float.min(v).precision(2), lambda v=v: schema.float.max(v).precision(2),
                   lambda v=v: schema.float.min(v).max(v).precision(1), lambda: schema.float.min(0.0).max(1e6).precision(3),
                   lambda: schema.dict({"x": schema.float.precision(2), "y": schema.int}), lambda: schema.list(schema.float.precision(1)),
                   lambda: schema.any(schema.float.precision(2), schema.none), lambda: schema.list([..., schema.float.precision(2), ...])):
            try:
                s = mk()
            except Exception:  # noqa: BLE001
                continue
            from d42.declaration.types import DictSchema, ListSchema
            vv = {"x": v} if isinstance(s, DictSchema) else ([v] if isinstance(s, ListSchema) else v)
            cases.append(SubCase(s, vv, vv, "float-precision"))
    return cases


def many_errors_cases(ctx):
    """directed: values that make one validation pass collect MANY errors (11+ wrong members, wrong keys, extra keys), and
    long conforming values (lists of 16+ fixed scalars, dicts of 20 keys)"""
    from d42 import schema
    cases = []
    for n in (3, 10, 11, 12, 40):
        cases += [SubCase(schema.list(schema.int), None, ["x"] * n, "many-errors"),
                  SubCase(schema.list(schema.int), None, [i if i % 2 else "x" for i in range(2 * n)], "many-errors"),
                  SubCase(schema.dict({"k%d" % i: schema.int for i in range(n)}), None, {"k%d" % i: "s" for i in range(n)}, "many-errors"),
                  SubCase(schema.dict({"a": schema.int}), None, {"a": 1, **{"e%d" % i: 0 for i in range(n)}}, "many-errors"),
                  SubCase(schema.any(schema.list(schema.int), schema.list(schema.str)), None, ["x"] * n, "many-errors"),
                  SubCase(schema.dict({"xs": schema.list(schema.dict({"id": schema.int}))}), None, {"xs": [{"id": "bad"}] * n}, "many-errors"),
                  SubCase(schema.list(schema.int.min(0)), list(range(n)), list(range(n)), "long-value"),
                  SubCase(schema.list(schema.bool), [True] * n, [True] * n, "long-value"),
                  SubCase(schema.list(schema.bytes), [b"A"] * n, [b"A"] * n, "long-value"),
                  SubCase(schema.list, list(range(100, 100 + n)), list(range(100, 100 + n)), "long-value"),
                  SubCase(schema.dict({"m": schema.list(schema.str)}), {"m": ["s"] * n}, {"m": ["s"] * n}, "long-value"),
                  SubCase(schema.dict, {"k%02d" % i: i for i in range(n)}, {"k%02d" % i: i for i in range(n)}, "long-value")]
    return cases


def list_partial_dict_cases(ctx):
    """directed: every element-list form with two or more concrete elements, a dict schema among them at every position,
    against values whose dict members are PARTIAL (substitution accepts a partial dict for a dict element; the element must
    then still be that dict schema narrowed — not a fresh exact schema of the partial value)"""
    from d42 import schema
    user = schema.dict({"id": schema.int.min(1), "name": schema.str.len(1, 8)})
    full, part = {"id": 1, "name": "bob"}, {"id": 1}
    cases = []
    bodies = [([schema.int, user], [7, part]), ([user, schema.int], [part, 7]), ([user, user], [part, {"name": "x"}]),
              ([schema.int, user, schema.str], [7, part, "s"]), ([schema.int, user], [7, full])]
    for body, val in bodies:
        for els, v in ((list(body), val), (body + [...], val + [0]), (body + [...], val), ([...] + body, [0] + val), ([...] + body, val),
                       ([...] + body + [...], [0] + val + [0]), ([...] + body + [...], val), ([...] + body, [{"id": 2}, 5] + val)):
            try:
                sc = schema.list(list(els))
            except Exception:  # noqa: BLE001
                continue
            cases.append(SubCase(sc, None, v, "list-partial-dict"))
            cases.append(SubCase(schema.dict({"xs": sc}), None, {"xs": v}, "list-partial-dict"))
    return cases


def list_form_cases(ctx):
    """directed: every list form with 1..3 body elements against short value sequences enumerated exhaustively over a
    small member universe that includes members `from_native` cannot convert and relaxed dicts with extra keys"""
    import itertools
    from d42 import schema
    rel = schema.dict({"a": schema.int, ...: ...})
    bodies = [[schema.int], [schema.int, schema.str], [schema.int, schema.int], [rel], [schema.int, rel],
              [schema.str, schema.int, schema.str]]
    members = [1, "a", object(), (1,), {"a": 1, "b": 2}, {"a": 1}]
    cases = []
    for body in bodies:
        forms = [list(body), body + [...], [...] + body, [...] + body + [...]]
        for els in forms:
            s = schema.list(els)
            maxlen = ctx.n(4, 5) if len(body) < 3 else 4
            for n in range(0, maxlen + 1):
                for combo in itertools.product(range(len(members)), repeat=n):
                    if n >= 4 and ctx.rnd.random() < ctx.n(0.7, 0.3):
                        continue
                    v = [members[i] if not isinstance(members[i], (dict, tuple)) else (dict(members[i]) if isinstance(members[i], dict) else members[i]) for i in combo]
                    cases.append(SubCase(s, None, v, "listform"))
    return cases


def run_real(c):
    I = encode.Interner()
    c.I = I
    try:
        es = encode.enc_schema(c.schema, I)
        ev = encode.enc_value(c.value, I)
    except encode.Unencodable as e:
        es = None
        c.skip = str(e)
    try:
        c.result = substitute(c.schema, c.value)
        c.kind = "ok"
    except Exception as e:  # noqa: BLE001
        c.result, c.kind = e, "exc"
    if es is None:
        return
    if c.kind == "ok":
        try:
            c.exp = ["ok", encode.tostr(encode.enc_schema(c.result, I))]
        except encode.Unencodable as e:
            c.exp = ["unenc", str(e)]
    else:
        c.exp = ["exc", type(c.result).__name__]
    c.req = ["subst", es, ev, I.rxtab()]


def compare(cases, ctx):
    todo = [c for c in cases if c.req is not None]
    res = model.run_batch([c.req for c in todo])
    out = []
    for c, r in zip(todo, res):
        ctx.count("substcorr_cases")
        if isinstance(r, str):
            out.append((c, "model driver answered " + r))
            continue
        if r[0] == "exc" and r[1] == "UNMODELLED":
            ctx.count("substcorr_unmodelled")
            continue
        if c.exp[0] == "unenc":
            out.append((c, f"real result is outside the modelled universe ({c.exp[1]}), model says {sexp.dumps(r)[:200]}"))
            continue
        if r != c.exp:
            out.append((c, f"substitution outcome differs:\n real  {sexp.dumps(c.exp)[:500]}\n model {sexp.dumps(r)[:500]}"))
        else:
            ctx.count("substcorr_agree:" + c.exp[0])
    return out
