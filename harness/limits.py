"""Probes at the interpreter's resource limits and other corners recorded as findings (K14 K15 K16 K18): each runs the
recorded scenario and its neighbours on the real code and reports through ctx.violation with the fields the finding class
looks at — so the recorded input is suppressed by its class, and anything else these probes meet is reported."""
import sys

from .common import d42  # noqa: F401
from d42 import schema, substitute, validate, validate_or_fail
from d42.declaration.errors import DeclarationError
from d42.substitution.errors import SubstitutionError
from d42.validation import ValidationException

HUGE_DIGITS = 5000


def _huge():
    return 10 ** HUGE_DIGITS


def huge_int_probe(ctx, prop):
    H = _huge()
    info = dict(huge_int_digits=HUGE_DIGITS + 1)
    ctx.count("huge_int_probes")
    if prop == "C08":
        for what, s in (("schema.str", schema.str), ("schema.int.max(0)", schema.int.max(0)), ("schema.list(schema.str)", schema.list(schema.str)),
                        ("schema.dict({'k': schema.int(1)})", schema.dict({"k": schema.int(1)}))):
            v = H if not what.startswith(("schema.list", "schema.dict")) else ([H] if "list" in what else {"k": H})
            try:
                errs = validate(s, v).get_errors()
            except Exception as e:  # noqa: BLE001
                ctx.violation("validate raised %s on a huge int" % type(e).__name__, schema=what, exception=repr(e), **info)
                continue
            try:
                r = validate_or_fail(s, v)
                if errs or r is not True:
                    ctx.violation("validate_or_fail did not raise although there are errors", schema=what, **info)
            except ValidationException:
                pass
            except Exception as e:  # noqa: BLE001
                ctx.violation("validate_or_fail raised %s (not ValidationException) for a value containing a huge int"
                              % type(e).__name__, schema=what, exception=repr(e), **info)
    elif prop == "C10":
        for what, f in (("schema.int(H)(1)", lambda: schema.int(H)(1)), ("schema.int(H).min(H + 1)", lambda: schema.int(H).min(H + 1)),
                        ("schema.int.min(H).min(1)", lambda: schema.int.min(H).min(1)), ("schema.int(H)", lambda: schema.int(H)),
                        ("schema.int.min(-H).max(H)", lambda: schema.int.min(-H).max(H))):
            try:
                f()
            except DeclarationError:
                pass
            except Exception as e:  # noqa: BLE001
                ctx.violation("a declaration call raised %s (not DeclarationError)" % type(e).__name__, chain=what,
                              exception=repr(e), **info)
    elif prop == "C11":
        import itertools
        ops = [("min", 1), ("min", 2), ("max", H)]
        kinds = set()
        for perm in itertools.permutations(ops):
            s = schema.int
            try:
                for m, a in perm:
                    s = getattr(s, m)(a)
                kinds.add("ok")
            except DeclarationError:
                kinds.add("DeclarationError")
            except Exception as e:  # noqa: BLE001
                kinds.add(type(e).__name__ + ":" + str(e)[:60])
        if kinds != {"DeclarationError"}:
            exc = sorted(k for k in kinds if k not in ("ok", "DeclarationError"))
            ctx.violation("a refinement raised something other than DeclarationError" if exc else
                          "some orders are rejected and others accepted", facade="int", refinements="min(1), min(2), max(10**5000)",
                          outcomes=sorted(kinds), exception="ValueError " + " ".join(exc), **info)


def declaration_corner_probe(ctx):
    """C10: patterns re.compile refuses with something other than re.error; junk given to schema.alias and used afterwards"""
    ctx.count("declaration_corner_probes")
    for pat in ("a{4294967296}", "a{99999999999999999999}", "a{2,99999999999999999999}", "(", "[", "a**", "(?P<n>a)(?P<n>b)", "\\",
                "(?<=a+)b", "\\9", "(?z)"):
        for chain, f in (("schema.str.regex(p)", lambda: schema.str.regex(pat)), ("schema.str('aa').regex(p)", lambda: schema.str("aa").regex(pat)),
                         ("schema.str.alphabet('a').regex(p)", lambda: schema.str.alphabet("a").regex(pat))):
            try:
                f()
            except DeclarationError:
                pass
            except Exception as e:  # noqa: BLE001
                ctx.violation("a declaration call raised %s (not DeclarationError)" % type(e).__name__, chain=chain, pattern=pat,
                              exception=repr(e)[:200])
    for junk in (2, None, "int", [schema.int], {"a": 1}, ..., object()):
        for name in ("n", 5, None):
            steps = [("schema.alias(name, junk)", lambda: schema.alias(name, junk)),
                     ("schema.list(schema.alias(name, junk)).len('x')", lambda: schema.list(schema.alias(name, junk)).len("x")),
                     ("schema.any(schema.alias(name, junk))(schema.int)", lambda: schema.any(schema.alias(name, junk))(schema.int)),
                     ("schema.dict({'k': schema.alias(name, junk)})({})", lambda: schema.dict({"k": schema.alias(name, junk)})({})),
                     ("schema.alias(name, junk) | schema.int", lambda: schema.alias(name, junk) | schema.int)]
            for chain, f in steps:
                try:
                    f()
                except DeclarationError:
                    pass
                except Exception as e:  # noqa: BLE001
                    ctx.violation("a declaration call raised %s (not DeclarationError)" % type(e).__name__, chain=chain,
                                  alias_name=repr(name), alias_target=repr(junk)[:60], exception=repr(e)[:200])
                    break


def special_key_declaration_probe(ctx):
    """C10: a rejected declaration call on a schema that CONTAINS a dict with special keys (every DeclarationError message
    embeds the repr of the schema built so far): re-declarations and wrongly typed arguments, directly on the dict and on a
    list / union containing it"""
    from .hostile import SPECIAL_KEYS
    from d42 import optional
    ctx.count("special_key_declaration_probes")
    for k in SPECIAL_KEYS:
        try:
            d = schema.dict({k: schema.int, optional("o"): schema.str})
        except DeclarationError:
            continue
        except Exception as e:  # noqa: BLE001
            ctx.violation("a declaration call raised %s (not DeclarationError)" % type(e).__name__, chain="schema.dict({key: schema.int})",
                          key=repr(k), exception=repr(e)[:200])
            continue
        for chain, f in (("d({})", lambda: d({})), ("d(42)", lambda: d(42)), ("schema.list(d)(d)", lambda: schema.list(d)(d)),
                         ("schema.list(d).len('x')", lambda: schema.list(d).len("x")), ("schema.list([d]).len(1).len(2)", lambda: schema.list([d]).len(1).len(2)),
                         ("schema.any(d)(schema.int)", lambda: schema.any(d)(schema.int)), ("schema.any(d, schema.int)(5)", lambda: schema.any(d, schema.int)(5)),
                         ("d + 5", lambda: d + 5), ("schema.dict({'in': d})({})", lambda: schema.dict({"in": d})({}))):
            try:
                f()
            except (DeclarationError, TypeError) as e:
                if isinstance(e, TypeError) and chain != "d + 5":
                    ctx.violation("a declaration call raised TypeError (not DeclarationError)", chain=chain, key=repr(k), exception=repr(e)[:200])
            except Exception as e:  # noqa: BLE001
                ctx.violation("a declaration call raised %s (not DeclarationError)" % type(e).__name__, chain=chain, key=repr(k),
                              exception=repr(e)[:200])


def receiver_after_rejection_probe(ctx):
    """C10 "leaving the receiver unchanged": after a declaration call on a receiver was rejected, the SAME receiver object is
    used again — what it prints, what it equals, and what every further refinement of it gives is what an independently built
    equal receiver gives (a rejected call may not leave anything behind, visible now or at the next declaration)"""
    receivers = {
        "str": [lambda: schema.str("abc"), lambda: schema.str, lambda: schema.str.alphabet("abc"), lambda: schema.str.contains("b")],
        "list": [lambda: schema.list([schema.int, schema.str]), lambda: schema.list, lambda: schema.list(schema.int)],
        "int": [lambda: schema.int(5), lambda: schema.int.min(1)], "float": [lambda: schema.float(1.5), lambda: schema.float.precision(2)],
        "dict": [lambda: schema.dict({"a": schema.int})], "any": [lambda: schema.any(schema.int)],
    }
    failing = {
        "str": [lambda r: r.len(1, 2), lambda r: r.len(1, "x"), lambda r: r.len(2, 1), lambda r: r.len("x"), lambda r: r.alphabet(5), lambda r: r.regex("("),
                lambda r: r.contains("zzz").contains("y"), lambda r: r.len(1, ...).len(2, ...), lambda r: r("other")("again"), lambda r: r.len(0, 1)],
        "list": [lambda r: r.len(1, "x"), lambda r: r.len(3, 1), lambda r: r.len(0, 1), lambda r: r.len(5, 9), lambda r: r(5), lambda r: r.len(1, ...).len(1, ...)],
        "int": [lambda r: r.min(9).max(1), lambda r: r.min("x"), lambda r: r.max(0).max(0), lambda r: r(1)(2)],
        "float": [lambda r: r.min(9.0).max(1.0), lambda r: r.precision("x"), lambda r: r.min(1.0).min(2.0), lambda r: r.precision(1).precision(2)],
        "dict": [lambda r: r({}), lambda r: r(5)], "any": [lambda r: r(schema.str), lambda r: r(5)],
    }
    follow = {
        "str": [lambda r: r.alphabet("abcxyz"), lambda r: r.len(3), lambda r: r.contains("b"), lambda r: r("abc"), lambda r: r.len(1, ...)],
        "list": [lambda r: r.len(2), lambda r: r.len(..., 5), lambda r: r.len(1, ...)],
        "int": [lambda r: r.min(0), lambda r: r.max(100)], "float": [lambda r: r.min(0.0), lambda r: r.max(100.0), lambda r: r.precision(3)],
        "dict": [lambda r: r + schema.dict({"z": schema.none})], "any": [lambda r: r | schema.none],
    }

    def outcome(f, r):
        try:
            x = f(r)
            return ("ok", repr(x), repr(x.props))
        except DeclarationError:
            return ("rejected",)
        except Exception as e:  # noqa: BLE001
            return ("exc", type(e).__name__)
    for kind, mks in receivers.items():
        for mk in mks:
            for bad in failing[kind]:
                try:
                    r, twin = mk(), mk()
                except Exception:  # noqa: BLE001
                    continue
                first = outcome(bad, r)
                ctx.count("receiver_after_rejection_cases")
                if first[0] == "ok":
                    continue                      # the call was accepted on this tree: nothing was rejected
                if repr(r) != repr(twin) or not (r == twin) or repr(r.props) != repr(twin.props):
                    ctx.violation("a rejected declaration call changed its receiver", receiver=repr(twin), after=repr(r), outcome=first)
                    return
                for f in follow[kind]:
                    a, b = outcome(f, r), outcome(f, twin)
                    if a != b:
                        ctx.violation("after a rejected declaration call the receiver behaves differently from an equal schema built "
                                      "independently", receiver=repr(twin), rejected_call_outcome=first, next_call_on_receiver=a,
                                      next_call_on_twin=b)
                        return


def _deep_list(n):
    v = []
    for _ in range(n):
        v = [v]
    return v


def recursion_probe(ctx, prop):
    depth = max(3000, sys.getrecursionlimit() * 3)
    info = dict(nesting_depth=depth)
    ctx.count("recursion_probes")
    if prop == "C10":
        try:
            schema.str.regex("(" * depth + ")" * depth)
        except DeclarationError:
            pass
        except Exception as e:  # noqa: BLE001
            ctx.violation("a declaration call raised %s (not DeclarationError)" % type(e).__name__,
                          chain="schema.str.regex('(' * n + ')' * n)", exception=type(e).__name__, **info)
    elif prop == "C12":
        v = _deep_list(depth)
        for what, s in (("schema.list", schema.list), ("schema.any", schema.any), ("schema.list(schema.any)", schema.list(schema.any))):
            try:
                substitute(s, v)
            except SubstitutionError:
                pass
            except Exception as e:  # noqa: BLE001
                ctx.violation("substitute raised %s (not SubstitutionError)" % type(e).__name__, schema=what,
                              exception=type(e).__name__, **info)
    elif prop == "C14":
        from d42.utils import from_native
        v = _deep_list(depth)
        try:
            from_native(v)
        except Exception as e:  # noqa: BLE001
            ctx.violation("from_native raised %s on a plain value" % type(e).__name__, exception=type(e).__name__, **info)


def identity_key_probe(ctx):
    """dict keys hashed by identity above a nested error, one and two levels down"""
    class K:
        def __repr__(self):
            return "<K>"
    for depth in (1, 2, 3):
        k = K()
        s, v = schema.int, "x"
        for _ in range(depth):
            s, v = schema.dict({k: s}), {k: v}
        ctx.count("identity_key_probes")
        for e in validate(s, v).get_errors():
            cur = v
            try:
                for op in e.path:
                    cur = op(cur)
                if cur != "x":
                    ctx.violation("following the error's path reaches a different sub-value than the error reports",
                                  schema=repr(s), value=repr(v), error=repr(e))
            except Exception as ex:  # noqa: BLE001
                ctx.violation("the error's path does not exist in the value (%s)" % type(ex).__name__, schema=repr(s),
                              value=repr(v), error=repr(e), identity_hashed_key_depth2=depth >= 2)


def custom_union_probe(ctx):
    """a forwarding custom type around a union, at every position: printed like the built-in"""
    from d42 import optional
    from . import custom
    u = schema.any(schema.int, schema.str)
    positions = [("any alternative", lambda t: schema.any(t, schema.none), True), ("| operand", lambda t: t | schema.none, True),
                 ("right | operand", lambda t: schema.none | t, True),
                 ("list element", lambda t: schema.list([t]), False), ("typed list", lambda t: schema.list(t), False),
                 ("dict value", lambda t: schema.dict({"k": t, optional("o"): t}), False), ("root", lambda t: t, False),
                 ("alias target", lambda t: schema.alias("A", t), False)]
    for name, mk, inside_union in positions:
        ctx.count("custom_union_probes")
        try:
            a, b = repr(mk(u)), repr(mk(custom.wrap(u)))
        except Exception as e:  # noqa: BLE001
            ctx.violation("building / printing a tree with a forwarding custom type around a union raised " + type(e).__name__,
                          position=name)
            continue
        if a != b:
            squeeze = lambda t: t.replace(" ", "").replace("\n", "")   # noqa: E731
            unflattened = inside_union and squeeze(b) == squeeze(a).replace(
                "schema.int,schema.str", "schema.any(schema.int,schema.str)", 1)
            ctx.violation("printed form differs when sub-schemas are wrapped in a forwarding custom type", position=name,
                          plain_text=a, wrapped_text=b, wrapped_union_alternative_unflattened=bool(unflattened))
