"""A forwarding CustomSchema (C16): forwards __validate__/__generate__/__represent__/__substitute__
to the built-in schema stored in props["inner"], passing on the received path / indent / kwargs."""
from typing import Any

from . import common  # noqa: F401
from . import encode
from niltype import Nil
from d42.custom_type import CustomSchema, Props, register_type


class FwdProps(Props):
    @property
    def inner(self):
        return self.get("inner")


class FwdSchema(CustomSchema[FwdProps]):
    def __call__(self, inner):
        return self.__class__(self.props.update(inner=inner))

    def __represent__(self, visitor, *, indent: int = 0, **kwargs: Any) -> str:
        return self.props.inner.__accept__(visitor, indent=indent, **kwargs)

    def __generate__(self, visitor, **kwargs: Any) -> Any:
        return self.props.inner.__accept__(visitor, **kwargs)

    def __validate__(self, visitor, *, value: Any = Nil, path=Nil, **kwargs: Any):
        return self.props.inner.__accept__(visitor, value=value, path=path, **kwargs)

    def __substitute__(self, visitor, *, value: Any = Nil, **kwargs: Any):
        return self.__class__(self.props.update(
            inner=self.props.inner.__accept__(visitor, value=value, **kwargs)))


encode.CUSTOM_CLASSES.append(FwdSchema)


def wrap(inner):
    return FwdSchema()(inner)
