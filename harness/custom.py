"""A forwarding CustomSchema (C16): forwards __validate__/__generate__/__represent__/__substitute__
to the built-in schema stored in props["inner"], passing on the received path / indent / kwargs."""
from typing import Any

from . import common  # noqa: F401
from . import encode
from niltype import Nil
from d42.custom_type import CustomSchema, Props, register_type


class FwdProps(Props):
    @property
    def inner(self):
        return self.get("inner")


class FwdSchema(CustomSchema[FwdProps]):
    def __call__(self, inner):
        return self.__class__(self.props.update(inner=inner))

    def __represent__(self, visitor, *, indent: int = 0, **kwargs: Any) -> str:
        return self.props.inner.__accept__(visitor, indent=indent, **kwargs)

    def __generate__(self, visitor, **kwargs: Any) -> Any:
        return self.props.inner.__accept__(visitor, **kwargs)

    def __validate__(self, visitor, *, value: Any = Nil, path=Nil, **kwargs: Any):
        return self.props.inner.__accept__(visitor, value=value, path=path, **kwargs)

    def __substitute__(self, visitor, *, value: Any = Nil, **kwargs: Any):
        return self.__class__(self.props.update(
            inner=self.props.inner.__accept__(visitor, value=value, **kwargs)))


encode.CUSTOM_CLASSES.append(FwdSchema)


def wrap(inner):
    return FwdSchema()(inner)


class ForwardingHooks:
    """the same four hooks provided by a plain MIXIN (found through the MRO, not in the custom class's own body)"""
    def __represent__(self, visitor, *, indent: int = 0, **kwargs: Any) -> str:
        return self.props.inner.__accept__(visitor, indent=indent, **kwargs)

    def __generate__(self, visitor, **kwargs: Any) -> Any:
        return self.props.inner.__accept__(visitor, **kwargs)

    def __validate__(self, visitor, *, value: Any = Nil, path=Nil, **kwargs: Any):
        return self.props.inner.__accept__(visitor, value=value, path=path, **kwargs)

    def __substitute__(self, visitor, *, value: Any = Nil, **kwargs: Any):
        return self.__class__(self.props.update(
            inner=self.props.inner.__accept__(visitor, value=value, **kwargs)))


class MixFwdSchema(CustomSchema[FwdProps], ForwardingHooks):
    def __call__(self, inner):
        return self.__class__(self.props.update(inner=inner))


class SubFwdSchema(FwdSchema):
    """inherits every hook from a custom base and overrides nothing"""


class SubSubFwdSchema(SubFwdSchema):
    def __represent__(self, visitor, *, indent: int = 0, **kwargs: Any) -> str:     # overrides ONE hook, by delegation
        return super().__represent__(visitor, indent=indent, **kwargs)


FWD_CLASSES = (FwdSchema, MixFwdSchema)          # SubFwd / SubSubFwd are FwdSchema subclasses
for _c in (MixFwdSchema, SubFwdSchema, SubSubFwdSchema):
    encode.CUSTOM_CLASSES.append(_c)
WRAPPERS = [wrap, lambda inner: MixFwdSchema()(inner), lambda inner: SubFwdSchema()(inner), lambda inner: SubSubFwdSchema()(inner)]


class DeckSchema(CustomSchema[Props]):
    """a custom type whose generation uses every primitive of the generator's Random, shuffle_list included"""
    def __represent__(self, visitor, *, indent: int = 0, **kwargs: Any) -> str:
        return "deck"

    def __generate__(self, visitor, **kwargs: Any) -> Any:
        r = visitor.random
        cards = list(range(12))
        r.shuffle_list(cards)
        return [cards, r.random_int(0, 9), r.random_choice("abc"), r.random_str(4, "xyz"), r.random_float(0.0, 1.0, 3)]

    def __validate__(self, visitor, *, value: Any = Nil, path=Nil, **kwargs: Any):
        from d42 import schema
        return schema.list.__accept__(visitor, value=value, path=path, **kwargs)

    def __substitute__(self, visitor, *, value: Any = Nil, **kwargs: Any):
        return self


class OptProps(Props):
    @property
    def word(self):
        return self.get("word")


class OptSchema(CustomSchema[OptProps]):
    """a custom type whose verdict depends on a keyword option of validate(): `ignore_case=True`"""
    def __call__(self, word):
        return self.__class__(self.props.update(word=word))

    def __represent__(self, visitor, *, indent: int = 0, **kwargs: Any) -> str:
        return "opt(%r)" % (self.props.word,)

    def __generate__(self, visitor, **kwargs: Any) -> Any:
        return self.props.word

    def __validate__(self, visitor, *, value: Any = Nil, path=Nil, ignore_case: bool = False, **kwargs: Any):
        from d42 import schema
        w = self.props.word
        if ignore_case and isinstance(value, str):
            return schema.str(w.lower()).__accept__(visitor, value=value.lower(), path=path, **kwargs)
        return schema.str(w).__accept__(visitor, value=value, path=path, **kwargs)

    def __substitute__(self, visitor, *, value: Any = Nil, **kwargs: Any):
        return self
