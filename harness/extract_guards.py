"""Translator: the refinement methods of d42/declaration/types/*.py -> lean/D42/Gen/Guards.lean.

For every public refinement method it extracts, with python `ast`, from the *current source*:
  U  = the props whose `is not Nil` test leads to `raise make_already_declared_error(self)`
  D  = the props the method writes (`props.update(k=...)`, incl. through the `__declare_*` helpers)
  T  = the isinstance type tuple of the argument check
Only the idioms the files use today are accepted; anything else raises ExtractionError, which the
checks report as a broken proof obligation."""
import ast
import os

from . import lake
from .common import REPO, VERIF

FILES = {
    "bool": "_bool_schema.py", "int": "_int_schema.py", "float": "_float_schema.py", "str": "_str_schema.py",
    "list": "_list_schema.py", "bytes": "_bytes_schema.py", "uuid4": "_uuid4_schema.py", "datetime": "_datetime_schema.py",
    "date": "_date_schema.py", "any": "_any_schema.py", "dict": "_dict_schema.py",
}
PROP_ORDER = ["value", "min", "max", "precision", "len", "min_len", "max_len", "alphabet", "substr", "pattern",
              "elements", "type", "keys", "types"]


class ExtractionError(Exception):
    pass


def _is_not_nil_atoms(test):
    """atoms of `a is not Nil (or b is not Nil ...)`, parenthesised or not; None if the test has another shape"""
    if isinstance(test, ast.BoolOp) and isinstance(test.op, ast.Or):
        out = []
        for v in test.values:
            a = _is_not_nil_atoms(v)
            if a is None:
                return None
            out += a
        return out
    if (isinstance(test, ast.Compare) and len(test.ops) == 1 and isinstance(test.ops[0], ast.IsNot)
            and isinstance(test.comparators[0], ast.Name) and test.comparators[0].id == "Nil"):
        left = test.left
        if (isinstance(left, ast.Attribute) and isinstance(left.value, ast.Attribute) and left.value.attr == "props"
                and isinstance(left.value.value, ast.Name) and left.value.value.id == "self"):
            return [left.attr]
    return None


def _raises_already_declared(body):
    return (len(body) == 1 and isinstance(body[0], ast.Raise) and isinstance(body[0].exc, ast.Call)
            and getattr(body[0].exc.func, "id", None) == "make_already_declared_error")


def _updates(node):
    """keyword names of every `<x>.update(k=...)` call inside node"""
    out = []
    for n in ast.walk(node):
        if isinstance(n, ast.Call) and isinstance(n.func, ast.Attribute) and n.func.attr == "update":
            for kw in n.keywords:
                if kw.arg is None:
                    raise ExtractionError("update(**x) is not a recognised idiom")
                out.append(kw.arg)
    return out


def _isinstance_types(fn):
    out = []
    for n in ast.walk(fn):
        if isinstance(n, ast.Call) and getattr(n.func, "id", None) == "isinstance" and len(n.args) == 2:
            t = n.args[1]
            names = [ast.unparse(e) for e in t.elts] if isinstance(t, ast.Tuple) else [ast.unparse(t)]
            out.append(names)
    return out


def extract():
    table = []
    for ty, fname in FILES.items():
        src = open(os.path.join(REPO, "d42/declaration/types", fname)).read()
        tree = ast.parse(src)
        cls = [n for n in tree.body if isinstance(n, ast.ClassDef) and n.name.endswith("Schema")]
        if len(cls) != 1:
            raise ExtractionError(f"{fname}: expected one *Schema class")
        cls = cls[0]
        helpers = {}
        for fn in cls.body:
            if isinstance(fn, ast.FunctionDef) and fn.name.startswith("__declare_"):
                helpers[fn.name] = _updates(fn)
        for fn in cls.body:
            if not isinstance(fn, ast.FunctionDef):
                continue
            if fn.name.startswith("_") and fn.name != "__call__":
                continue
            if fn.name in ("keys",):
                continue
            ups = _updates(fn)
            called_helpers = sorted({n.func.attr.replace("_" + cls.name, "") for n in ast.walk(fn)
                                     if isinstance(n, ast.Call) and isinstance(n.func, ast.Attribute)
                                     and "__declare_" in n.func.attr})
            if not ups and not called_helpers:
                continue   # not a refinement (e.g. __accept__, __getitem__, __add__ handled elsewhere)
            U = []
            for n in ast.walk(fn):
                if isinstance(n, ast.If) and _raises_already_declared(n.body):
                    atoms = _is_not_nil_atoms(n.test)
                    if atoms is None:
                        raise ExtractionError(f"{fname}:{n.lineno}: unrecognised already-declared guard `{ast.unparse(n.test)}`")
                    U += atoms
            name = "call" if fn.name == "__call__" else fn.name
            Uo = sorted(set(U), key=PROP_ORDER.index)
            if not called_helpers:
                table.append((ty, name, Uo, sorted(set(ups), key=PROP_ORDER.index)))
                continue
            # one form per assignment whose right-hand side calls the `__declare_*` helpers (the four `len(...)` forms)
            forms = []
            for n in ast.walk(fn):
                if isinstance(n, ast.Assign):
                    hs = [c.func.attr for c in ast.walk(n.value) if isinstance(c, ast.Call)
                          and isinstance(c.func, ast.Attribute) and "__declare_" in c.func.attr]
                    if hs:
                        D = list(ups)
                        for h in hs:
                            key = [k for k in helpers if h.endswith(k)]
                            if not key:
                                raise ExtractionError(f"{fname}: helper {h} not found")
                            D += helpers[key[0]]
                        forms.append(sorted(set(D), key=PROP_ORDER.index))
            if not forms:
                raise ExtractionError(f"{fname}: {fn.name} calls declare helpers outside an assignment")
            for D in forms:
                table.append((ty, name + "[" + "+".join(D) + "]", Uo, D))
    return table


def render():
    table = extract()
    L = ["/- GENERATED by harness/extract_guards.py from d42/declaration/types/*.py of the current source tree.\n"
         "   U = props whose `is not Nil` raises make_already_declared_error; D = props the method writes. Do not edit. -/",
         "namespace D42.Gen.Guards", "",
         "inductive Prop_ where", "  | " + " | ".join("p_" + p for p in PROP_ORDER), "deriving DecidableEq, Repr", "",
         "structure Row where", "  ty : String", "  method : String", "  U : List Prop_", "  D : List Prop_", "deriving Repr", "",
         "def table : List Row := ["]
    rows = []
    for ty, name, U, D in table:
        rows.append(f'  ⟨"{ty}", "{name}", [' + ", ".join(".p_" + u for u in U) + "], [" + ", ".join(".p_" + d for d in D) + "]⟩")
    L.append(",\n".join(rows))
    L.append("]\n")
    L.append("def conflict (a b : Row) : Bool := a.D.any (fun n => b.U.contains n)\n")
    L.append("/-- every refinement refuses to overwrite what it writes -/")
    L.append("theorem writes_guarded : ∀ r ∈ table, ∀ n ∈ r.D, n ∈ r.U := by decide")
    L.append("def nonValue (r : Row) : Bool := r.method != \"call\"\n")
    L.append("/-- within one type, among the non-value refinements, 'a blocks b' is symmetric — the side condition of the\n"
             "    commutation theorem (C11) -/")
    L.append("theorem conflict_symmetric : ∀ a ∈ table, ∀ b ∈ table, a.ty = b.ty → nonValue a = true → nonValue b = true →\n"
             "    conflict a b = conflict b a := by decide")
    L.append("/-- fixing the value first is always possible: no non-value refinement is blocked by a declared value -/")
    L.append("theorem value_blocks_nothing : ∀ a ∈ table, nonValue a = true → ¬ (Prop_.p_value ∈ a.U) := by decide")
    L.append("\nend D42.Gen.Guards\n")
    return "\n".join(L)


def run():
    path = os.path.join(VERIF, "lean", "D42", "Gen", "Guards.lean")
    try:
        content = render()
    except ExtractionError as e:
        return False, str(e)
    with lake.Lock():
        lake.write_if_changed(path, content)
    return True, ""


if __name__ == "__main__":
    print(render())
