"""Small-scope exhaustive inputs (thorough tier): EVERY schema of a small grammar up to depth 2 and a fixed universe of
values — no random choice, so the correspondence between model and code is checked on the whole scope, not a sample."""
from .common import d42  # noqa: F401


def leaves():
    from d42 import schema
    return [schema.none, schema.bool, schema.int, schema.int(1), schema.int.min(1), schema.int.max(1), schema.float(1.5),
            schema.str, schema.str("a"), schema.str.len(1), schema.any, schema.list, schema.dict]


def reduced():
    from d42 import schema
    return [schema.int, schema.int(1), schema.str, schema.none, schema.any]


def _build(out, mk):
    try:
        out.append(mk())
    except Exception:  # noqa: BLE001  (a combination the tree under test refuses to declare is not part of the scope)
        pass


def depth1():
    from d42 import optional, schema
    out = []
    L, R = leaves(), reduced()
    for t in L:
        _build(out, lambda t=t: schema.list(t))
    _build(out, lambda: schema.list([]))
    _build(out, lambda: schema.list([...]))
    bodies = [[a] for a in R] + [[a, b] for a in R for b in R]
    for body in bodies:
        for els in (body, body + [...], [...] + body, [...] + body + [...]):
            _build(out, lambda els=els: schema.list(list(els)))
    opts = [None] + [(o, t) for o in (False, True) for t in R]
    for ka in opts:
        for kb in opts:
            for relaxed in (False, True):
                keys = {}
                if ka is not None:
                    keys[optional("a") if ka[0] else "a"] = ka[1]
                if kb is not None:
                    keys[optional("b") if kb[0] else "b"] = kb[1]
                if relaxed:
                    keys[...] = ...
                _build(out, lambda keys=keys: schema.dict(keys))
    for a in R:
        for b in R:
            _build(out, lambda a=a, b=b: schema.any(a, b))
    return out


def depth2(d1):
    from d42 import optional, schema
    out = []
    for t in d1:
        _build(out, lambda t=t: schema.list(t))
        for form in (lambda t: [t], lambda t: [t, ...], lambda t: [..., t], lambda t: [..., t, ...], lambda t: [schema.int, t]):
            _build(out, lambda t=t, form=form: schema.list(form(t)))
        for mk in (lambda t: {"a": t}, lambda t: {optional("a"): t}, lambda t: {"a": t, ...: ...}, lambda t: {"b": schema.int, "a": t}):
            _build(out, lambda t=t, mk=mk: schema.dict(mk(t)))
        _build(out, lambda t=t: schema.any(t, schema.none))
        _build(out, lambda t=t: schema.any(schema.int, t))
    return out


def schemas(max_depth=2):
    d1 = depth1()
    out = leaves() + d1
    if max_depth >= 2:
        out += depth2(d1)
    return out


def values():
    base = [None, True, 1, 2, 0, 1.5, "a", "ab", b"a", [], [1], [1, 1], [1, "a"], ["a", 1], [None, 1, None], [1, 1, 1],
            {}, {"a": 1}, {"b": 1}, {"a": 1, "b": "a"}, {"a": "a", "b": 1}, {"a": 1, "c": 1}, {"a": None}]
    nested = []
    for v in base:
        nested += [[v], [1, v], {"a": v}, {"a": v, "b": 1}]
    return base + nested + [[[1]], [[1], [1]], {"a": {"a": 1}}, [{"a": 1}, {"a": 1}], (1,), ...]


def subst_values():
    base = [None, True, 1, 2, "a", [], [1], [1, 1], [1, "a"], [..., 1], [1, ...], [..., 1, ...], {}, {"a": 1}, {"b": 1},
            {"a": 1, "b": "a"}, {"a": 1, "c": 1}, {"a": ...}, ...]
    nested = []
    for v in base:
        nested += [[v], {"a": v}]
    return base + nested


def validate_scope(ctx, sub=False, view="errors", oracle=None, stride=1, chunk=400, what="validator"):
    """run EVERY (schema, value) of the scope through the real validator and the model, chunk by chunk; `oracle(ctx, cases)`
    is applied to each chunk; returns the number of disagreements (the first few are recorded as breakages)"""
    from . import valcorr
    ss = schemas()[::stride]
    vs = subst_values() if sub else values()
    bad = 0
    for i in range(0, len(ss), chunk):
        cases = [valcorr.ValCase(s, v, "smallscope") for s in ss[i:i + chunk] for v in vs]
        for c in cases:
            valcorr.run_real(c, sub=sub)
            valcorr.prepare(c, sub=sub)
        if oracle is not None:
            oracle(ctx, cases)
        dis = valcorr.compare(cases, ctx, view=view, sub=sub)
        for c, detail in dis[: max(0, 5 - bad)]:
            ctx.breakage("correspondence", f"small-scope exhaustive: {what} differs between model and code",
                         schema=repr(c.schema), value=repr(c.value), detail=detail, request=c.req)
        bad += len(dis)
        ctx.count("smallscope_cases", len(cases))
    ctx.cov["smallscope_schemas"] = len(ss)
    ctx.cov["smallscope_values"] = len(vs)
    ctx.cov["smallscope_disagreements"] = bad
    return bad


def subst_scope(ctx, oracle=None, stride=1, chunk=400):
    """EVERY schema of the scope % every value of the substitution universe (plain, partial, with `...` markers), real code
    against the model; `oracle(ctx, cases)` is applied to each chunk"""
    from . import substcorr
    ss = schemas()[::stride]
    vs = subst_values()
    bad = 0
    for i in range(0, len(ss), chunk):
        cases = [substcorr.SubCase(s, None, v, "smallscope") for s in ss[i:i + chunk] for v in vs]
        for c in cases:
            substcorr.run_real(c)
        if oracle is not None:
            oracle(ctx, cases)
        dis = substcorr.compare(cases, ctx)
        for c, detail in dis[: max(0, 5 - bad)]:
            ctx.breakage("correspondence", "small-scope exhaustive: substitution outcome differs between model and code",
                         schema=repr(c.schema), value=repr(c.value), detail=detail, request=c.req)
        bad += len(dis)
        ctx.count("smallscope_cases", len(cases))
    ctx.cov["smallscope_schemas"] = len(ss)
    ctx.cov["smallscope_values"] = len(vs)
    ctx.cov["smallscope_disagreements"] = bad
    return bad


def gen_scope(ctx, oracle=None, stride=1, chunk=600, policies=("lo", "hi", "alt", "rnd")):
    """EVERY schema of the scope generated under each draw policy, (requests, value) of the real generator against the model"""
    from . import gencorr
    ss = schemas()[::stride]
    bad = 0
    for i in range(0, len(ss), chunk):
        cases = []
        for s in ss[i:i + chunk]:
            for pol in policies:
                c = gencorr.GenCase(s, pol)
                gencorr.run_real(c, ctx.rnd)
                cases.append(c)
        if oracle is not None:
            oracle(ctx, cases)
        dis = gencorr.compare(cases, ctx)
        for c, detail in dis[: max(0, 5 - bad)]:
            ctx.breakage("correspondence", "small-scope exhaustive: generator view differs between model and code",
                         schema=repr(c.schema), policy=c.policy, detail=detail)
        bad += len(dis)
        ctx.count("smallscope_cases", len(cases))
    ctx.cov["smallscope_schemas"] = len(ss)
    ctx.cov["smallscope_disagreements"] = bad
    return bad
