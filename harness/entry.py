"""Entry point of ./check: starts the (optional) coverage measurement of the code under test BEFORE anything
imports d42, then hands over to the runner."""
import os
import sys

COV = None


def main(argv):
    global COV
    tier = os.environ.get("VERIF_TIER", "quick")
    if "--tier" in argv:
        i = argv.index("--tier")
        if i + 1 < len(argv):
            tier = argv[i + 1]
    if (tier == "thorough" or os.environ.get("VERIF_COVERAGE")) and "--replay" not in argv:
        try:
            import coverage
            repo = os.environ.get("D42_REPO", "/repo")
            COV = coverage.Coverage(source=[os.path.join(repo, "d42")], branch=True, data_file=None)
            COV.start()
        except Exception:   # noqa: BLE001 — a measurement aid only
            COV = None
    from . import runner
    return runner.main(argv, COV)
