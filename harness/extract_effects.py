"""Translator (C07): every syntactic WRITE in the library's source — assignment / augmented assignment / deletion through an
attribute or a subscript, calls of mutating methods, `global` / `nonlocal` — with the object it writes to classified as

  fresh      a local name bound in the same function to a freshly built object (a display, a comprehension, list()/dict()/
             set()/deepcopy()/copy(), a factory call such as self._validation_result_factory(), sorted(), the result of a
             recursive build) — writing to it cannot be seen by anyone else until it is returned
  selfInit   `self.<attr> = …` inside __init__ (the object under construction)
  other      anything else: an argument, `self` outside __init__, a module-level object

-> lean/D42/Gen/Effects.lean. `Props/C07Effects.lean` decides on the generated table that every write is fresh / selfInit
or one of the listed, justified exceptions, and proves the frame theorem that turns this into "pre-existing objects are
unchanged". A new write to an argument or to shared state (the usual way purity breaks: .pop() on an operand, a cache, a
setdefault on a registry) appears in the table as `other` and the decision fails."""
import ast
import os

from . import lake
from .common import REPO, VERIF

OUT = os.path.join(VERIF, "lean", "D42", "Gen", "Effects.lean")
MUTATORS = {"append", "extend", "insert", "pop", "remove", "clear", "update", "setdefault", "sort", "reverse", "add", "discard",
            "popitem", "appendleft", "popleft", "__setitem__", "__delitem__", "__setattr__", "add_error", "add_errors",
            "seed", "shuffle", "setstate", "move_to_end", "cache_clear", "write", "writelines"}
FRESH_CALLS = {"list", "dict", "set", "tuple", "deepcopy", "copy", "defaultdict", "OrderedDict", "sorted", "reversed", "bytearray",
               "ValidationResult", "PathHolder", "StringIO"}
FRESH_METHODS = {"_validation_result_factory", "_path_holder_factory", "make_validation_result", "make_path", "readlines", "copy",
                 "split", "splitlines", "items", "keys", "values"}


class ExtractionError(Exception):
    pass


def _root(node):
    while isinstance(node, (ast.Attribute, ast.Subscript, ast.Call)):
        node = node.value if not isinstance(node, ast.Call) else node.func
    return node.id if isinstance(node, ast.Name) else None


def _is_fresh_expr(e):
    if isinstance(e, (ast.List, ast.Dict, ast.Set, ast.ListComp, ast.DictComp, ast.SetComp, ast.Tuple, ast.JoinedStr, ast.Constant)):
        return True
    if isinstance(e, ast.Call):
        f = e.func
        if isinstance(f, ast.Name) and f.id in FRESH_CALLS:
            return True
        if isinstance(f, ast.Attribute) and f.attr in FRESH_METHODS:
            return True
        if isinstance(f, ast.Attribute) and f.attr == "__class__":      # self.__class__(...)
            return True
        if isinstance(f, ast.Call):                                      # Ctor()(args)
            return True
    if isinstance(e, ast.BinOp):
        return True                                                     # a + b builds a new object for the builtin containers
    if isinstance(e, ast.Subscript) and isinstance(e.slice, ast.Slice):
        return True                                                     # xs[a:b] is a copy
    return False


def _unwrap(e):
    """cast(T, e) is e"""
    while isinstance(e, ast.Call) and isinstance(e.func, ast.Name) and e.func.id == "cast" and len(e.args) == 2:
        e = e.args[1]
    return e


def _bindings(fn):
    """[(line, name, fresh?)] for every binding of a local name in fn, in text order; parameters are bound (not fresh) at the def"""
    out = []
    args = fn.args
    for a in args.args + args.kwonlyargs + args.posonlyargs + ([args.vararg] if args.vararg else []) + ([args.kwarg] if args.kwarg else []):
        out.append((fn.lineno, a.arg, False))
    for n in _own_nodes(fn):
        if isinstance(n, ast.Assign):
            for t in n.targets:
                if isinstance(t, ast.Name):
                    out.append((n.lineno, t.id, _is_fresh_expr(_unwrap(n.value))))
                elif isinstance(t, (ast.Tuple, ast.List)):
                    for x in ast.walk(t):
                        if isinstance(x, ast.Name):
                            out.append((n.lineno, x.id, False))
        elif isinstance(n, ast.AnnAssign) and isinstance(n.target, ast.Name) and n.value is not None:
            out.append((n.lineno, n.target.id, _is_fresh_expr(_unwrap(n.value))))
        elif isinstance(n, ast.NamedExpr) and isinstance(n.target, ast.Name):
            out.append((n.lineno, n.target.id, _is_fresh_expr(_unwrap(n.value))))
        elif isinstance(n, (ast.For, ast.comprehension)):
            for x in ast.walk(n.target):
                if isinstance(x, ast.Name):
                    out.append((getattr(n, "lineno", n.target.lineno), x.id, False))   # aliases a member of something else
        elif isinstance(n, ast.With):
            for it in n.items:
                if it.optional_vars is not None:
                    for x in ast.walk(it.optional_vars):
                        if isinstance(x, ast.Name):
                            out.append((n.lineno, x.id, False))
        elif isinstance(n, ast.ExceptHandler) and n.name:
            out.append((n.lineno, n.name, False))
    return sorted(out)


def _fresh_at(bindings, name, line):
    """is the binding of `name` nearest above `line` (in text order) a fresh object? (an augmented assignment keeps it)"""
    best = None
    for ln, nm, fr in bindings:
        if nm == name and ln <= line:
            best = fr
    return bool(best)


def _functions(tree):
    out = []

    def rec(node, prefix):
        for n in getattr(node, "body", []):
            if isinstance(n, (ast.FunctionDef, ast.AsyncFunctionDef)):
                out.append((prefix + n.name, n))
                rec(n, prefix + n.name + ".")
            elif isinstance(n, ast.ClassDef):
                rec(n, prefix + n.name + ".")
    rec(tree, "")
    return out


def _own_nodes(fn):
    """nodes of fn that are not inside a nested def / class"""
    stack = list(fn.body)
    while stack:
        n = stack.pop()
        yield n
        for c in ast.iter_child_nodes(n):
            if not isinstance(c, (ast.FunctionDef, ast.AsyncFunctionDef, ast.ClassDef, ast.Lambda)):
                stack.append(c)


def extract():
    rows = []
    base = os.path.join(REPO, "d42")
    for root, dirs, files in os.walk(base):
        dirs.sort()
        for fn_ in sorted(files):
            if not fn_.endswith(".py"):
                continue
            path = os.path.join(root, fn_)
            rel = os.path.relpath(path, REPO)
            if rel.startswith("d42/migration") or rel == "d42/_main.py":
                continue        # file rewriting tool: not an operation on schemas
            try:
                tree = ast.parse(open(path, encoding="utf-8").read())
            except SyntaxError as e:
                raise ExtractionError(f"{rel}: {e}")
            for qual, fn in _functions(tree):
                binds = _bindings(fn)
                is_init = qual.endswith("__init__")
                for n in _own_nodes(fn):
                    sites = []
                    if isinstance(n, (ast.Assign, ast.AugAssign, ast.AnnAssign)):
                        targets = n.targets if isinstance(n, ast.Assign) else [n.target]
                        flat = []
                        for t in targets:
                            flat += list(t.elts) if isinstance(t, (ast.Tuple, ast.List)) else [t]
                        for t in flat:
                            if isinstance(t, (ast.Attribute, ast.Subscript)):
                                sites.append(("assign", t))
                    elif isinstance(n, ast.Delete):
                        for t in n.targets:
                            if isinstance(t, (ast.Attribute, ast.Subscript)):
                                sites.append(("delete", t))
                    elif isinstance(n, (ast.Global, ast.Nonlocal)):
                        rows.append((rel, qual, n.lineno, "global", ",".join(n.names), "other"))
                    elif isinstance(n, ast.Call) and isinstance(n.func, ast.Attribute) and n.func.attr in MUTATORS:
                        recv = ast.unparse(n.func.value)
                        if n.func.attr == "update" and (recv.endswith("props") or recv.endswith("Props")):
                            continue       # Props.update builds a new Props (pinned: d42/declaration/_props.py)
                        if n.func.attr in ("seed", "shuffle", "setstate") and recv == "random":
                            sites.append(("call:" + n.func.attr, n.func.value))
                        else:
                            sites.append(("call:" + n.func.attr, n.func.value))
                    # what is stored into props: a bare parameter name stored as a prop is the caller's own object
                    if isinstance(n, ast.Call) and isinstance(n.func, ast.Attribute) and n.func.attr in ("update", "set") \
                            and ast.unparse(n.func.value).endswith("props"):
                        pairs = [(kw.arg, kw.value) for kw in n.keywords if kw.arg] if n.func.attr == "update" else \
                            ([(ast.unparse(n.args[0]), n.args[1])] if len(n.args) == 2 else [])
                        for key, v in pairs:
                            v = _unwrap(v)
                            if isinstance(v, ast.Name):
                                cls = "fresh" if _fresh_at(binds, v.id, n.lineno) else "other"
                                rows.append((rel, qual, n.lineno, "store:" + str(key), v.id, cls))
                    for kind, t in sites:
                        rootname = _root(t)
                        text = ast.unparse(t)
                        if rootname is not None and rootname != "self" and _fresh_at(binds, rootname, n.lineno):
                            cls = "fresh"
                        elif is_init and rootname == "self":
                            cls = "selfInit"
                        else:
                            cls = "other"
                        rows.append((rel, qual, n.lineno, kind, text, cls))
    return rows


def _lit(x):
    return '"' + str(x).replace("\\", "\\\\").replace('"', '\\"').replace("\n", " ") + '"'


def render(rows):
    L = ["/- GENERATED by harness/extract_effects.py from every file under d42/ (migration tool aside) — do not edit.",
         "   One row per syntactic write: file, function, kind of write, what is written to, and how its owner was classified. -/",
         "namespace D42.Gen.Effects", "",
         "inductive Cls where", "  | fresh | selfInit | other", "deriving DecidableEq, Repr", "",
         "structure Row where", "  file : String", "  func : String", "  kind : String", "  target : String", "  cls : Cls",
         "deriving DecidableEq, Repr", "", "def table : List Row := ["]
    body = []
    for rel, qual, line, kind, text, cls in rows:
        body.append(f"  ⟨{_lit(rel)}, {_lit(qual)}, {_lit(kind)}, {_lit(text)}, .{cls}⟩")
    L.append(",\n".join(body))
    L.append("]")
    L.append("")
    L.append("end D42.Gen.Effects")
    return "\n".join(L) + "\n"


def run():
    try:
        rows = sorted(set((r[0], r[1], 0, r[3], r[4], r[5]) for r in extract()))
        content = render(rows)
    except (ExtractionError, OSError) as e:
        return False, f"{type(e).__name__}: {e}"
    with lake.Lock():
        lake.write_if_changed(OUT, content)
    return True, ""


if __name__ == "__main__":
    print(run())
