"""Directed families built from objects whose special methods default, insert or raise (user code faulting or having side
effects in the middle of a library operation), and the generic "fault, then repeat" sequences: an operation that succeeds,
the same operation made to fail half-way on the SAME container object, the container repaired in place, the first
operation repeated. Anything the library remembers about a call that did not finish shows up in the repeat.

Used by C02 C03 C08 (defaulting dicts as values), C03 (faulting members below element lists), C07 C09 C12 C14 C18
(fault-then-repeat), C16 (faulting probes in union positions)."""
import collections

from .common import d42  # noqa: F401
from d42 import optional, schema

from .valcorr import ValCase

FAULTS = (IndexError, KeyError, TypeError, ValueError, AttributeError, RuntimeError)


def _boom(self, *a, **k):
    raise self.exc("touchy")


class Touchy:
    """every comparison / size / iteration of this object raises `exc`"""
    __slots__ = ("exc",)

    def __init__(self, exc):
        self.exc = exc

    __eq__ = __ne__ = __lt__ = __le__ = __gt__ = __ge__ = __len__ = __iter__ = __contains__ = __getitem__ = __bool__ = _boom
    __hash__ = object.__hash__

    def __repr__(self):
        return "<Touchy %s>" % self.exc.__name__


class TouchyInt(int):
    """an int (passes every isinstance test) whose comparisons raise"""
    def __new__(cls, n, exc):
        o = int.__new__(cls, n)
        o.exc = exc
        return o

    __eq__ = __ne__ = __lt__ = __le__ = __gt__ = __ge__ = _boom
    __hash__ = int.__hash__

    def __repr__(self):
        return "<TouchyInt %d %s>" % (int(self), self.exc.__name__)


class TouchyStr(str):
    def __new__(cls, s, exc):
        o = str.__new__(cls, s)
        o.exc = exc
        return o

    __eq__ = __ne__ = __len__ = __iter__ = __contains__ = _boom
    __hash__ = str.__hash__

    def __repr__(self):
        return "<TouchyStr %s>" % self.exc.__name__


class Missing(dict):
    """a dict subclass whose lookup of an absent key answers a default WITHOUT storing it"""
    def __init__(self, default, *a, **k):
        super().__init__(*a, **k)
        self.default = default

    def __missing__(self, key):
        return self.default


def defaulting_dicts():
    """fresh dict-like values whose `value[key]` on an absent key defaults or inserts; `key in value` stays honest"""
    return [collections.defaultdict(int), collections.defaultdict(list), collections.defaultdict(str),
            collections.defaultdict(dict), collections.Counter(), collections.Counter(a=1),
            collections.defaultdict(int, {"n": 1}), Missing(0), Missing("x"), Missing([]), Missing({}), Missing(None),
            Missing(0, {"n": 1}), collections.OrderedDict(), collections.OrderedDict(n=1)]


def defaulting_dict_cases():
    """(schema, value) cases: dict schemas with required / optional keys against defaulting dicts, at the root and nested"""
    out = []
    same, in_list, under_a = (lambda v: v), (lambda v: [v]), (lambda v: {"a": v})
    shapes = [
        (lambda: schema.dict({"id": schema.int}), same),
        (lambda: schema.dict({"id": schema.int, optional("n"): schema.int}), same),
        (lambda: schema.dict({"id": schema.str, "n": schema.int}), same),
        (lambda: schema.dict({"id": schema.list, ...: ...}), same),
        (lambda: schema.dict({"id": schema.dict}), same),
        (lambda: schema.dict({"id": schema.none}), same),
        (lambda: schema.dict({"a": schema.dict({"id": schema.int})}), under_a),
        (lambda: schema.any(schema.dict({"id": schema.int}), schema.str), same),
        (lambda: schema.list(schema.dict({"id": schema.int})), in_list),
        (lambda: schema.list([schema.dict({"id": schema.int}), ...]), in_list),
    ]
    for mk, wrap in shapes:
        try:
            s = mk()
        except Exception:  # noqa: BLE001  (the tree under test cannot declare it)
            continue
        for i in range(len(defaulting_dicts())):
            out.append(ValCase(s, wrap(defaulting_dicts()[i]), "defaulting-dict"))
    return out


def sentinel_value_cases():
    """the library's own sentinels as DATA: `Nil` (niltype), `...`, NotImplemented as the value of a declared key / element —
    present keys are present whatever they hold"""
    from niltype import Nil
    out = []
    for sv in (Nil, ..., NotImplemented, None):
        for mk in (lambda: (schema.dict({"meta": schema.any}), {"meta": sv}),
                   lambda: (schema.dict({"meta": schema.str, "n": schema.int}), {"meta": sv, "n": 1}),
                   lambda: (schema.dict({"meta": schema.none, optional("o"): schema.int}), {"meta": sv, "o": sv}),
                   lambda: (schema.dict({"a": schema.dict({"meta": schema.int})}), {"a": {"meta": sv}}),
                   lambda: (schema.dict({"meta": schema.int, ...: ...}), {"meta": sv, "x": sv}),
                   lambda: (schema.list([schema.int, schema.any]), [1, sv]),
                   lambda: (schema.list(schema.dict({"meta": schema.any})), [{"meta": sv}]),
                   lambda: (schema.any(schema.dict({"meta": schema.int}), schema.str), {"meta": sv})):
            try:
                s, v = mk()
            except Exception:  # noqa: BLE001
                continue
            out.append(ValCase(s, v, "sentinel-data"))
    return out


def same_name_alias_cases():
    """aliases declared under ONE name with different targets, one after the other: each accepts what ITS target accepts"""
    out = []
    targets = [(lambda: schema.int.min(1), [7, 0, "abc"]), (lambda: schema.str.len(3), ["abc", "ab", 7]),
               (lambda: schema.list(schema.int), [[1], ["a"], 7]), (lambda: schema.dict({"k": schema.none}), [{"k": None}, {}, 7]),
               (lambda: schema.any(schema.none, schema.bool), [None, True, 7])]
    for name in ("id", "x", ""):
        built = []
        for mk, vals in targets:
            try:
                built.append((schema.alias(name, mk()), vals))
            except Exception:  # noqa: BLE001
                continue
        for a, vals in built + built[::-1]:          # used after ALL of them were declared, in both orders
            for v in vals:
                out.append(ValCase(a, v, "same-name-alias"))
                out.append(ValCase(schema.dict({"a": a}), {"a": v}, "same-name-alias"))
    return out


def alias_target_probe(ctx):
    """C02 / C13: an alias accepts what ITS target accepts — also when the name was used before for another target"""
    from d42 import validate
    from . import conforms
    targets = [(lambda: schema.int.min(1), [7, 0, "abc", None]), (lambda: schema.str.len(3), ["abc", "ab", 7]),
               (lambda: schema.list(schema.int), [[1], ["a"], 7]), (lambda: schema.dict({"k": schema.none}), [{"k": None}, {}, 7]),
               (lambda: schema.any(schema.none, schema.bool), [None, True, 7]), (lambda: schema.int.min(1), [7, 0])]
    for name in ("id", "x", ""):
        for rounds in range(2):
            for mk, vals in targets:
                ctx.count("alias_target_probes")
                try:
                    a, t = schema.alias(name, mk()), mk()
                except Exception:  # noqa: BLE001
                    continue
                for wrap_s, wrap_v in ((lambda x: x, lambda v: v), (lambda x: schema.dict({"a": x}), lambda v: {"a": v}),
                                       (lambda x: schema.list([x, ...]), lambda v: [v, 1])):
                    for v in vals:
                        got = not validate(wrap_s(a), wrap_v(v)).has_errors()
                        want = conforms.conforms(wrap_s(t), wrap_v(v))
                        if got != want:
                            ctx.violation("validate accepts a non-conforming value" if got else "validate rejects a conforming value",
                                          schema="schema.alias(%r, %s)" % (name, repr(t)), value=repr(wrap_v(v)),
                                          note="the alias name had been used before for another target")
                            return


def shared_object_cases():
    """ONE container object at two positions of a value whose positions expect DIFFERENT contents"""
    out = []
    d1, l1 = {"x": 1}, [1]
    out.append(ValCase(schema.dict({"a": schema.dict({"x": schema.int(1)}), "b": schema.dict({"x": schema.int(2)})}), {"a": d1, "b": d1}, "shared-object"))
    out.append(ValCase(schema.dict({"a": schema.dict({"x": schema.int(1)}), "b": schema.dict({"x": schema.int(1)})}), {"a": d1, "b": d1}, "shared-object"))
    out.append(ValCase(schema.list([schema.list([schema.int(1)]), schema.list([schema.int(2)])]), [l1, l1], "shared-object"))
    out.append(ValCase(schema.list([schema.list([schema.int(1)]), schema.list([schema.str])]), [l1, l1], "shared-object"))
    out.append(ValCase(schema.dict({"owner": schema.dict({"n": schema.str("ann")}), "editor": schema.dict({"n": schema.str("bob")})}),
                       (lambda o: {"owner": o, "editor": o})({"n": "ann"}), "shared-object"))
    out.append(ValCase(schema.list(schema.any(schema.list([schema.int(1)]), schema.list([schema.int(2)]))).len(2), [l1, l1], "shared-object"))
    out.append(ValCase(schema.dict({"a": schema.list(schema.int), "b": schema.list(schema.str)}), (lambda o: {"a": o, "b": o})([1, 2]), "shared-object"))
    return out


def revalidation_sequences(check):
    """validate, change the value IN PLACE (repair it, break it, move the fault), validate the same objects again: the second
    answer is about the value as it is now. `check(schema, value, errors, label)` judges one answer."""
    import copy
    from d42 import validate
    seqs = [
        (lambda: schema.dict({"id": schema.int, "tags": schema.list(schema.str)}), lambda: {"id": "7", "tags": ["a", 2]},
         [lambda v: v.__setitem__("id", 7), lambda v: v["tags"].__setitem__(1, "b"), lambda v: v["tags"].append(3), lambda v: v.pop("id")]),
        (lambda: schema.list([schema.int, schema.str, ...]), lambda: [1, 2, 3],
         [lambda v: v.__setitem__(1, "s"), lambda v: v.__setitem__(0, "x"), lambda v: v.clear()]),
        (lambda: schema.list(schema.dict({"k": schema.int.min(0)})), lambda: [{"k": 1}, {"k": -1}],
         [lambda v: v[1].__setitem__("k", 5), lambda v: v[0].__setitem__("k", -5), lambda v: v.append({"k": "s"})]),
        (lambda: schema.any(schema.dict({"a": schema.int}), schema.list(schema.int)), lambda: {"a": "x"},
         [lambda v: v.__setitem__("a", 1), lambda v: v.__setitem__("b", 2)]),
    ]
    for mk_s, mk_v, muts in seqs:
        try:
            s = mk_s()
        except Exception:  # noqa: BLE001
            continue
        v = mk_v()
        check(s, v, validate(s, v).get_errors(), "first validation")
        for i, m in enumerate(muts):
            m(v)
            errs = validate(s, v).get_errors()          # the SAME objects again, nothing else validated in between
            fresh = [repr(e) for e in validate(mk_s(), copy.deepcopy(v)).get_errors()]
            check(s, v, errs, "validation %d after an in-place change" % (i + 2), fresh)


SPECIAL_KEYS = ["/users/{id}", "{}", "{", "}", "{0}", "%s", "%(a)s", "a\\b", "it's", 'say "x"', "line\nbreak", "", " ", (1, 2), ("a",), (), frozenset({1}), 5, None, True, 1.5, b"k"]


def special_key_cases():
    """dict KEYS special to str.format / %-formatting / quoting (and keys that are tuples, frozensets, numbers, bytes, None),
    required and optional, in every place a message prints a schema: a union whose alternatives are such dicts (the
    mismatch message embeds their repr), nested, next to values that match no alternative"""
    out = []
    for k in SPECIAL_KEYS:
        for mk in (lambda k: schema.dict({k: schema.int}), lambda k: schema.dict({optional(k): schema.int, "z": schema.str}),
                   lambda k: schema.dict({k: schema.dict({k: schema.int}), ...: ...})):
            try:
                d = mk(k)
            except Exception:  # noqa: BLE001
                continue
            for s, vals in ((d, [{k: 1}, {k: "x"}, {}, 5]),
                            (schema.any(d, schema.str), [{k: 1}, (1, 2), 5, float("nan"), b"b", {k: "x"}]),
                            (schema.list(schema.any(d, schema.none)), [[{k: 1}, None], [5], [{k: None}]]),
                            (schema.dict({"in": schema.any(schema.list(d), d)}), [{"in": [{k: 1}]}, {"in": 5}, {"in": {k: "x"}}])):
                for v in vals:
                    out.append(ValCase(s, v, "special-key"))
    return out


def big_value_cases():
    """values with more than 100 / 1000 members of every sized kind (list, tuple, set, frozenset, dict, str, bytes, bytearray,
    range, dict views, deque) where the schema expects something else — whatever a message does with long values"""
    import collections
    out = []
    for n in (101, 301):
        bigs = [list(range(n)), tuple(range(n)), set(range(n)), frozenset(range(n)), {i: i for i in range(n)}, "x" * n, b"y" * n,
                bytearray(b"z" * n), range(n), {i: 0 for i in range(n)}.keys(), collections.deque(range(n)), {str(i): [i] for i in range(n)}]
        for b in bigs:
            for s, wrap in ((schema.int, lambda v: v), (schema.str.len(1), lambda v: v), (schema.list(schema.str).len(2), lambda v: v),
                            (schema.dict({"k": schema.int}), lambda v: {"k": v}), (schema.list([schema.none, schema.int]), lambda v: [None, v]),
                            (schema.any(schema.int, schema.none), lambda v: v), (schema.dict({"a": schema.int}), lambda v: v)):
                out.append(ValCase(s, wrap(b), "big-value"))
    return out


def line_break_and_odd_value_cases():
    r"""strings that END in a line break (`$` matches before it, `\Z` does not), contain one, or a NUL, against every str
    constraint; UUIDs whose variant is not RFC 4122 (`.version` is None: nil, max, NCS, Microsoft) against uuid4 schemas;
    sets whose members cannot be ordered against each other — at the root and nested"""
    import uuid
    out = []
    strs = ["12345\n", "\n", "abc\n", "ab\nc", "abc\r", "abc\r\n", "a\x00", "\x00", "abc\x0b", "abc\x85", "abc\u2028", "abc "]
    for mk in (lambda: schema.str.alphabet("0123456789"), lambda: schema.str.alphabet("abc"), lambda: schema.str.alphabet(""),
               lambda: schema.str("abc"), lambda: schema.str.len(3), lambda: schema.str.len(..., 3), lambda: schema.str.contains("abc"),
               lambda: schema.str.regex(r"^abc$"), lambda: schema.str.regex(r"^\d+$"), lambda: schema.str.alphabet("abc\n"),
               lambda: schema.str.alphabet("abc").len(3)):
        try:
            s = mk()
        except Exception:  # noqa: BLE001
            continue
        for v in strs:
            out.append(ValCase(s, v, "line-break"))
            out.append(ValCase(schema.dict({"k": s, optional("o"): schema.list(s)}), {"k": v, "o": ["abc", v]}, "line-break"))
    odd_uuids = [uuid.UUID(int=0), uuid.UUID(int=2 ** 128 - 1), uuid.UUID("12345678-1234-4234-1234-123456789abc"),
                 uuid.UUID("12345678-1234-4234-c234-123456789abc"), uuid.UUID("12345678-1234-1234-e234-123456789abc"),
                 uuid.UUID("12345678-1234-5234-8234-123456789abc"), uuid.UUID("12345678-1234-4234-8234-123456789abc")]
    for u in odd_uuids:
        for s, v in ((schema.uuid4, u), (schema.uuid4(odd_uuids[-1]), u), (schema.dict({"ids": schema.list(schema.uuid4)}), {"ids": [odd_uuids[-1], u]}),
                     (schema.any(schema.uuid4, schema.none), u), (schema.list([schema.uuid4, ...]), [u])):
            out.append(ValCase(s, v, "odd-uuid"))
    for st in ({1, "a"}, frozenset({None, "x"}), {2, (3, 4)}, {1.5, "b", None}, {b"x", "x"}, {True, "t"}, {("a",), 1}, set(), {1}):
        for s, v in ((schema.int, st), (schema.list(schema.int), st), (schema.dict({"k": schema.str}), {"k": st}), (schema.list([schema.int, schema.str]), [1, st]),
                     (schema.any(schema.int, schema.str), st), (schema.dict({"a": schema.any(schema.list, schema.none)}), {"a": st})):
            out.append(ValCase(s, v, "mixed-set"))
    return out


def accept_all_member_cases():
    """accept-everything members (bare `schema.any`, `any(any)`, an alias of it, a relaxed empty dict) at EVERY position of a
    dict / element list / union, against values that fail somewhere else (extra key, missing key before and after the member,
    wrong sibling) — each pair appears several times in a row, so an answer that depends on what was validated before shows"""
    out = []
    alls = [lambda: schema.any, lambda: schema.any(schema.any), lambda: schema.alias("Anything", schema.any), lambda: schema.any(schema.any, schema.int)]
    for mk in alls:
        for pos in range(3):
            def keys():
                ks = [("id", schema.int), ("name", schema.str)]
                ks.insert(pos, ("payload", mk()))
                return dict(ks)
            vals = [{"id": 1, "name": "n", "payload": object}, {"id": 1, "name": "n", "payload": [1], "extra": 0}, {"id": 1, "payload": None},
                    {"name": "n", "payload": {}}, {"payload": 1}, {"id": "x", "name": 2, "payload": 3, "e1": 1, "e2": 2}, {"id": 1, "name": "n"}, {}]
            for v in vals:
                for _ in range(2):
                    try:
                        out.append(ValCase(schema.dict(keys()), dict(v), "accept-all-member"))
                        out.append(ValCase(schema.list([schema.dict(keys()), mk()]), [dict(v), 42], "accept-all-member"))
                    except Exception:  # noqa: BLE001
                        pass
        for v in (42, None, [1], {"a": 1}, "s"):
            try:
                out.append(ValCase(mk(), v, "accept-all-member"))
                out.append(ValCase(schema.list(mk()), [v, v], "accept-all-member"))
                out.append(ValCase(schema.list([mk(), schema.int]), [v], "accept-all-member"))
                out.append(ValCase(schema.list([mk(), schema.int]), [v, 1, 2], "accept-all-member"))
            except Exception:  # noqa: BLE001
                pass
    return out


def touchy_cases():
    """(schema, value) cases whose nested validation raises from user code. The real validate may raise (not this
    family's business); whatever errors it RETURNS must still be true and located."""
    out = []
    for exc in FAULTS:
        members = [TouchyInt(1, exc), TouchyStr("a", exc), Touchy(exc)]
        for m in members:
            for els, val in (
                ([schema.int(1), schema.str("a")], [m, "a"]),
                ([schema.int(1), schema.str("a")], [1, m]),
                ([schema.int(1), ...], [m, 2, 3]),
                ([..., schema.int(1)], [3, 2, m]),
                ([..., schema.int(1), ...], [3, m, 2]),
                ([schema.str("a"), schema.int(1), schema.int(2)], ["a", m, 2]),
                ([schema.dict({"k": schema.int(1)}), schema.int(2)], [{"k": m}, 2]),
                ([schema.list([schema.int(1)]), schema.int(2)], [[m], 2]),
            ):
                try:
                    s = schema.list(els)
                except Exception:  # noqa: BLE001
                    continue
                out.append(ValCase(s, val, "touchy"))
                out.append(ValCase(schema.dict({"items": s, "n": schema.int}), {"items": val, "n": 1}, "touchy"))
            out.append(ValCase(schema.list(schema.int(1)), [1, m, 1], "touchy"))
            out.append(ValCase(schema.dict({"a": schema.int(1), "b": schema.int(2)}), {"a": m, "b": 3}, "touchy"))
            out.append(ValCase(schema.any(schema.int(1), schema.str("a")), m, "touchy"))
    return out


def fault_then_repeat(op, make, break_, repair, observe):
    """generic sequence on one container object:
         c = make(); r1 = op(c); break_(c); op(c) [may raise]; repair(c); r2 = op(c)
       returns None if the repeat agrees with the first run, otherwise a description. `op` returns a result or raises;
       an exception counts as a result (compared by class)."""
    def attempt(c):
        try:
            return ("ok", observe(op(c)))
        except Exception as e:  # noqa: BLE001
            return ("raise", type(e).__name__)
    c = make()
    r1 = attempt(c)
    break_(c)
    mid = attempt(c)
    repair(c)
    r2 = attempt(c)
    if r1 != r2:
        return {"first": r1, "while_broken": mid, "repeat": r2}
    return None
