"""Directed families built from objects whose special methods default, insert or raise (user code faulting or having side
effects in the middle of a library operation), and the generic "fault, then repeat" sequences: an operation that succeeds,
the same operation made to fail half-way on the SAME container object, the container repaired in place, the first
operation repeated. Anything the library remembers about a call that did not finish shows up in the repeat.

Used by C02 C03 C08 (defaulting dicts as values), C03 (faulting members below element lists), C07 C09 C12 C14 C18
(fault-then-repeat), C16 (faulting probes in union positions)."""
import collections

from .common import d42  # noqa: F401
from d42 import optional, schema

from .valcorr import ValCase

FAULTS = (IndexError, KeyError, TypeError, ValueError, AttributeError, RuntimeError)


def _boom(self, *a, **k):
    raise self.exc("touchy")


class Touchy:
    """every comparison / size / iteration of this object raises `exc`"""
    __slots__ = ("exc",)

    def __init__(self, exc):
        self.exc = exc

    __eq__ = __ne__ = __lt__ = __le__ = __gt__ = __ge__ = __len__ = __iter__ = __contains__ = __getitem__ = __bool__ = _boom
    __hash__ = object.__hash__

    def __repr__(self):
        return "<Touchy %s>" % self.exc.__name__


class TouchyInt(int):
    """an int (passes every isinstance test) whose comparisons raise"""
    def __new__(cls, n, exc):
        o = int.__new__(cls, n)
        o.exc = exc
        return o

    __eq__ = __ne__ = __lt__ = __le__ = __gt__ = __ge__ = _boom
    __hash__ = int.__hash__

    def __repr__(self):
        return "<TouchyInt %d %s>" % (int(self), self.exc.__name__)


class TouchyStr(str):
    def __new__(cls, s, exc):
        o = str.__new__(cls, s)
        o.exc = exc
        return o

    __eq__ = __ne__ = __len__ = __iter__ = __contains__ = _boom
    __hash__ = str.__hash__

    def __repr__(self):
        return "<TouchyStr %s>" % self.exc.__name__


class Missing(dict):
    """a dict subclass whose lookup of an absent key answers a default WITHOUT storing it"""
    def __init__(self, default, *a, **k):
        super().__init__(*a, **k)
        self.default = default

    def __missing__(self, key):
        return self.default


def defaulting_dicts():
    """fresh dict-like values whose `value[key]` on an absent key defaults or inserts; `key in value` stays honest"""
    return [collections.defaultdict(int), collections.defaultdict(list), collections.defaultdict(str),
            collections.defaultdict(dict), collections.Counter(), collections.Counter(a=1),
            collections.defaultdict(int, {"n": 1}), Missing(0), Missing("x"), Missing([]), Missing({}), Missing(None),
            Missing(0, {"n": 1}), collections.OrderedDict(), collections.OrderedDict(n=1)]


def defaulting_dict_cases():
    """(schema, value) cases: dict schemas with required / optional keys against defaulting dicts, at the root and nested"""
    out = []
    same, in_list, under_a = (lambda v: v), (lambda v: [v]), (lambda v: {"a": v})
    shapes = [
        (lambda: schema.dict({"id": schema.int}), same),
        (lambda: schema.dict({"id": schema.int, optional("n"): schema.int}), same),
        (lambda: schema.dict({"id": schema.str, "n": schema.int}), same),
        (lambda: schema.dict({"id": schema.list, ...: ...}), same),
        (lambda: schema.dict({"id": schema.dict}), same),
        (lambda: schema.dict({"id": schema.none}), same),
        (lambda: schema.dict({"a": schema.dict({"id": schema.int})}), under_a),
        (lambda: schema.any(schema.dict({"id": schema.int}), schema.str), same),
        (lambda: schema.list(schema.dict({"id": schema.int})), in_list),
        (lambda: schema.list([schema.dict({"id": schema.int}), ...]), in_list),
    ]
    for mk, wrap in shapes:
        try:
            s = mk()
        except Exception:  # noqa: BLE001  (the tree under test cannot declare it)
            continue
        for i in range(len(defaulting_dicts())):
            out.append(ValCase(s, wrap(defaulting_dicts()[i]), "defaulting-dict"))
    return out


def sentinel_value_cases():
    """the library's own sentinels as DATA: `Nil` (niltype), `...`, NotImplemented as the value of a declared key / element —
    present keys are present whatever they hold"""
    from niltype import Nil
    out = []
    for sv in (Nil, ..., NotImplemented, None):
        for mk in (lambda: (schema.dict({"meta": schema.any}), {"meta": sv}),
                   lambda: (schema.dict({"meta": schema.str, "n": schema.int}), {"meta": sv, "n": 1}),
                   lambda: (schema.dict({"meta": schema.none, optional("o"): schema.int}), {"meta": sv, "o": sv}),
                   lambda: (schema.dict({"a": schema.dict({"meta": schema.int})}), {"a": {"meta": sv}}),
                   lambda: (schema.dict({"meta": schema.int, ...: ...}), {"meta": sv, "x": sv}),
                   lambda: (schema.list([schema.int, schema.any]), [1, sv]),
                   lambda: (schema.list(schema.dict({"meta": schema.any})), [{"meta": sv}]),
                   lambda: (schema.any(schema.dict({"meta": schema.int}), schema.str), {"meta": sv})):
            try:
                s, v = mk()
            except Exception:  # noqa: BLE001
                continue
            out.append(ValCase(s, v, "sentinel-data"))
    return out


def touchy_cases():
    """(schema, value) cases whose nested validation raises from user code. The real validate may raise (not this
    family's business); whatever errors it RETURNS must still be true and located."""
    out = []
    for exc in FAULTS:
        members = [TouchyInt(1, exc), TouchyStr("a", exc), Touchy(exc)]
        for m in members:
            for els, val in (
                ([schema.int(1), schema.str("a")], [m, "a"]),
                ([schema.int(1), schema.str("a")], [1, m]),
                ([schema.int(1), ...], [m, 2, 3]),
                ([..., schema.int(1)], [3, 2, m]),
                ([..., schema.int(1), ...], [3, m, 2]),
                ([schema.str("a"), schema.int(1), schema.int(2)], ["a", m, 2]),
                ([schema.dict({"k": schema.int(1)}), schema.int(2)], [{"k": m}, 2]),
                ([schema.list([schema.int(1)]), schema.int(2)], [[m], 2]),
            ):
                try:
                    s = schema.list(els)
                except Exception:  # noqa: BLE001
                    continue
                out.append(ValCase(s, val, "touchy"))
                out.append(ValCase(schema.dict({"items": s, "n": schema.int}), {"items": val, "n": 1}, "touchy"))
            out.append(ValCase(schema.list(schema.int(1)), [1, m, 1], "touchy"))
            out.append(ValCase(schema.dict({"a": schema.int(1), "b": schema.int(2)}), {"a": m, "b": 3}, "touchy"))
            out.append(ValCase(schema.any(schema.int(1), schema.str("a")), m, "touchy"))
    return out


def fault_then_repeat(op, make, break_, repair, observe):
    """generic sequence on one container object:
         c = make(); r1 = op(c); break_(c); op(c) [may raise]; repair(c); r2 = op(c)
       returns None if the repeat agrees with the first run, otherwise a description. `op` returns a result or raises;
       an exception counts as a result (compared by class)."""
    def attempt(c):
        try:
            return ("ok", observe(op(c)))
        except Exception as e:  # noqa: BLE001
            return ("raise", type(e).__name__)
    c = make()
    r1 = attempt(c)
    break_(c)
    mid = attempt(c)
    repair(c)
    r2 = attempt(c)
    if r1 != r2:
        return {"first": r1, "while_broken": mid, "repeat": r2}
    return None
