"""Structural map over real schema objects (used to wrap sub-schemas in custom types, to make
independent rebuilds and single-parameter variants)."""
from . import common  # noqa: F401
from . import custom
from niltype import Nil
from d42.declaration.types import (AnySchema, DictSchema, GenericTypeAliasSchema, ListSchema, Schema)


def children_map(s, f):
    """a copy of `s` whose direct sub-schemas are replaced by f(sub)"""
    p = s.props
    if isinstance(s, custom.FWD_CLASSES):
        return s.__class__(p.update(inner=f(p.inner)))
    if isinstance(s, ListSchema):
        upd = {}
        t, els = p.get("type"), p.get("elements")
        if t is not Nil and isinstance(t, Schema):
            upd["type"] = f(t)
        if els is not Nil:
            upd["elements"] = [x if x is Ellipsis else f(x) for x in els]
        return s.__class__(p.update(**upd)) if upd else s.__class__(p)
    if isinstance(s, DictSchema):
        keys = p.get("keys")
        if keys is Nil:
            return s.__class__(p)
        return s.__class__(p.update(keys={k: ((v if v is Ellipsis else f(v)), o) for k, (v, o) in keys.items()}))
    if isinstance(s, AnySchema):
        ts = p.get("types")
        if ts is Nil:
            return s.__class__(p)
        return s.__class__(p.update(types=tuple(f(t) for t in ts)))
    if isinstance(s, GenericTypeAliasSchema):
        return s.__class__(p.update(type=f(p.type)))
    return s.__class__(p)


def deep_map(s, f):
    """bottom-up: f applied to every node after its children were mapped"""
    return f(children_map(s, lambda c: deep_map(c, f)))


def clone(s):
    return deep_map(s, lambda x: x)


def wrap_random(s, rnd, prob=0.3):
    return deep_map(s, lambda x: custom.wrap(x) if rnd.random() < prob else x)


def erase_custom(s):
    def f(x):
        return x.props.inner if isinstance(x, custom.FWD_CLASSES) else x
    return deep_map(s, f)


def subschemas(s):
    out = []

    def f(x):
        out.append(x)
        return x
    deep_map(s, f)
    return out
