"""A stand-in for the stdlib `random` module as seen by d42.generation._random, answering from a
policy and logging every request/answer. No source hooks: `Generator`/`RegexGenerator` take a
`Random` by constructor injection and `Random`'s methods look `random` up in their module globals.
"""
import contextlib

from .common import RANDOM_MODULE
from d42.generation import Generator, Random, RegexGenerator


class BadPolicy(Exception):
    pass


class Scripted:
    """policy(kind, a, b, n) -> answer; kind in {"int","uniform","idx"}; n = request number."""

    def __init__(self, policy):
        self.policy = policy
        self.log = []     # ("int", a, b, v) | ("uniform", a, b, v) | ("idx", n, i) | ("chr", n, c) | ("ext", kind, v) | ("seed", k)

    def seed(self, k):
        self.log.append(("seed", k))

    def randint(self, a, b):
        if a > b:
            self.log.append(("int", a, b, None))
            raise ValueError(f"empty range in randrange({a}, {b + 1})")
        v = self.policy("int", a, b, len(self.log))
        if isinstance(v, bool):
            v = int(v)      # random.randint(True, n) returns an int, never the bound object itself
        self.log.append(("int", a, b, v))
        return v

    def uniform(self, a, b):
        v = self.policy("uniform", a, b, len(self.log))
        self.log.append(("uniform", a, b, v))
        return v

    def choice(self, seq):
        if len(seq) == 0:
            self.log.append(("idx", 0, None))
            raise IndexError("Cannot choose from an empty sequence")
        chooser = getattr(self.policy, "choose", None)
        i = chooser(seq, len(self.log)) if chooser else self.policy("idx", 0, len(seq) - 1, len(self.log))
        if isinstance(seq, str):
            self.log.append(("chr", len(seq), ord(seq[i])))
        else:
            self.log.append(("idx", len(seq), i))
        return seq[i]

    def shuffle(self, xs):
        pass


import datetime as _dt
import sys as _sys
import uuid as _uuid

GENERATOR_MODULE = _sys.modules["d42.generation._generator"]
FIXED_UUIDS = [_uuid.UUID("0f0e0d0c-0b0a-4908-8706-050403020100"), _uuid.UUID("00112233-4455-4677-8899-aabbccddeeff")]
FIXED_NOW = _dt.datetime(2024, 2, 29, 12, 30, 15, 123456)
FIXED_TODAY = _dt.date(2024, 2, 29)


@contextlib.contextmanager
def scripted(policy):
    """rebind `random` in d42.generation._random and the clock/uuid sources that
    d42.generation._generator looks up in its own globals (uuid4, datetime, date)."""
    m = Scripted(policy)
    G = GENERATOR_MODULE
    old = (RANDOM_MODULE.random, G.uuid4, G.datetime, G.date)

    def uuid4():
        u = FIXED_UUIDS[len([e for e in m.log if e[0] == "ext"]) % 2]
        m.log.append(("ext", 0, u))
        return u

    class datetime_(_dt.datetime):
        @classmethod
        def utcnow(cls):
            m.log.append(("ext", 1, FIXED_NOW))
            return FIXED_NOW

    class _Today:
        def __sub__(self, delta):
            d = FIXED_TODAY - delta
            m.log.append(("ext", 2, d))
            return d

    class date_(_dt.date):
        @classmethod
        def today(cls):
            return _Today()

    RANDOM_MODULE.random = m
    G.uuid4, G.datetime, G.date = uuid4, datetime_, date_
    try:
        yield m
    finally:
        RANDOM_MODULE.random, G.uuid4, G.datetime, G.date = old


def generate(schema, policy, **kwargs):
    """run the real Generator under a scripted random source; returns (value | exception, log)"""
    with scripted(policy) as m:
        r = Random()
        g = Generator(r, RegexGenerator(r))
        try:
            v = schema.__accept__(g, **kwargs)
            return ("ok", v), m.log
        except Exception as e:   # noqa: BLE001 — the exception class is the observation
            return ("exc", e), m.log


def generate_public(schema, policy, **kwargs):
    """the same through the PUBLIC entry point — d42.fake(schema), i.e. the module-level generator exactly as the package
    wires it (its regex generator, alphabets, caps) — under the scripted random source"""
    from d42 import fake
    with scripted(policy) as m:
        try:
            return ("ok", fake(schema, **kwargs)), m.log
        except Exception as e:   # noqa: BLE001
            return ("exc", e), m.log


def draws_of(log, I):
    """the scripted log as the model's draw list (and the request list for comparison)"""
    from . import encode
    draws, reqs = ["draws"], ["reqs"]
    for e in log:
        if e[0] == "int":
            if e[3] is not None:
                # bool bounds (schema.int.min(True)) are ints to `random.randint`, which never returns a bool
                draws.append(["ri", int(e[3])])
                reqs.append(["randint", int(e[1]), int(e[2])])
        elif e[0] == "uniform":
            draws.append(["rf", encode.enc_float(float(e[3]))])
            reqs.append(["uniform", encode.enc_float(float(e[1])), encode.enc_float(float(e[2]))])
        elif e[0] == "idx":
            if e[2] is not None:
                draws.append(["rc", e[2]])
                reqs.append(["choice", e[1]])
        elif e[0] == "chr":
            draws.append(["rc", e[2]])
            reqs.append(["choice", e[1]])
        elif e[0] == "ext":
            draws.append(["rx", encode.enc_value(e[2], I)])
            reqs.append(["ext", e[1]])
    return draws, reqs


def make_policy(name, rnd):
    """named draw policies: every range's both ends and every branch get exercised."""
    if name == "lo":
        return lambda kind, a, b, n: a
    if name == "hi":
        return lambda kind, a, b, n: b
    if name == "alt":
        return lambda kind, a, b, n: (a if n % 2 == 0 else b)
    if name == "alt2":
        return lambda kind, a, b, n: (b if n % 2 == 0 else a)
    if name == "rnd":
        def pol(kind, a, b, n):
            if kind == "uniform":
                x = a + (b - a) * rnd.random()
                return min(max(x, a), b)
            return rnd.randint(a, b)
        return pol
    if name == "small":
        # stay near the low end (keeps generated structures small) but not always the extreme
        def pol(kind, a, b, n):
            if kind == "uniform":
                return a if rnd.random() < 0.5 else min(max(a + (b - a) * rnd.random(), a), b)
            return min(b, a + rnd.choice([0, 0, 1, 1, 2, 3]))
        return pol
    if name in ("cmax", "cmin"):
        # choices over a string pick its greatest / smallest character (the order of a set-derived candidate string is
        # arbitrary, so position-based policies cannot aim at the ends of the alphabet); other draws alternate
        def pol(kind, a, b, n):
            return b if (n % 2 == 0) == (name == "cmax") else a

        def choose(seq, n):
            if isinstance(seq, str):
                target = max(seq) if name == "cmax" else min(seq)
                return seq.index(target)
            return (len(seq) - 1) if name == "cmax" else 0
        pol.choose = choose
        return pol
    if name.startswith("idx:"):
        # every choice picks candidate number k (mod the number of candidates): sweeping k visits EVERY outcome of every
        # choice draw (each character of an alphabet, each alternative); numeric draws take the low end
        k = int(name[4:])

        def pol(kind, a, b, n):
            return a
        pol.choose = lambda seq, n: k % len(seq)
        return pol
    if name.startswith("one:"):
        # all-low except request number k which takes the high extreme
        k = int(name[4:])
        return lambda kind, a, b, n: (b if n == k else a)
    raise BadPolicy(name)


POLICIES = ["lo", "hi", "alt", "alt2", "rnd", "small", "cmax", "cmin"]
