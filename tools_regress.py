#!/usr/bin/env python3
"""Regression over the stored seeds: apply each seeded change to the repository named by D42_REPO (default /repo), run ONLY its
own property's quick check with the source pins switched off (VERIF_NO_PINS=1: what the search and the correspondence find
on their own), undo it. Prints one line per seed and a summary; exit 1 if a seed is no longer reported.
usage: tools_regress.py [name-prefix ...]"""
import json
import os
import subprocess
import sys

HERE = os.path.dirname(os.path.abspath(__file__))
REPO = os.environ.get("D42_REPO", "/repo")


def main():
    pref = tuple(sys.argv[1:])
    names = sorted(d for d in os.listdir(os.path.join(HERE, "seeded")) if os.path.isdir(os.path.join(HERE, "seeded", d)))
    if pref:
        names = [n for n in names if n.startswith(pref)]
    env = dict(os.environ, VERIF_NO_PINS="1", D42_REPO=REPO)
    bad = []
    for n in names:
        meta = json.load(open(os.path.join(HERE, "seeded", n, "meta.json")))
        prop = meta["property"]
        st = subprocess.run(f"git -C {REPO} status --porcelain", shell=True, stdout=subprocess.PIPE).stdout.decode()
        assert not st.strip(), REPO + " is not clean"
        subprocess.check_call(f"git -C {REPO} apply {HERE}/seeded/{n}/patch.diff", shell=True)
        try:
            p = subprocess.run(f"./check {prop} --tier quick", shell=True, cwd=HERE, env=env, stdout=subprocess.PIPE, stderr=subprocess.STDOUT)
            out = p.stdout.decode(errors="replace")
            line = [l for l in out.splitlines() if l.startswith(("VIOLATION", "OK "))]
            verdict = "exit%d" % p.returncode
            if p.returncode == 1 and line and line[-1].startswith("VIOLATION"):
                verdict = "nfi" if line[-1].endswith("no-failing-input-found") else "failing-input"
            elif p.returncode == 0:
                verdict = "MISSED"
        finally:
            subprocess.check_call(f"git -C {REPO} checkout -- .", shell=True)
        print(n, prop, verdict, flush=True)
        if verdict != "failing-input" and not (n.startswith("C12b") and verdict == "nfi"):
            bad.append((n, verdict))
    print("SUMMARY: %d seeds, %d not reported with a failing input by their own check: %s" % (len(names), len(bad), bad))
    return 1 if bad else 0


if __name__ == "__main__":
    sys.exit(main())
