#!/usr/bin/env python3
"""Model-mutation sensitivity: apply one small change to the Lean MODEL in a scratch copy, rebuild the whole library,
record which Props modules stop compiling. A mutation no theorem notices is one the proofs do not constrain
(the correspondence would still have to catch it). Results: lean_mutations.json (next to this file). Not a registered check: a one-off audit of how much the theorems constrain
the model; scratch copy under $TMPDIR, removed afterwards."""
import json, os, re, shutil, subprocess, sys, time
SRC = os.path.join(os.path.dirname(os.path.abspath(__file__)), "lean")
RESULTS = os.path.join(os.path.dirname(os.path.abspath(__file__)), "lean_mutations.json")
DST = os.path.join(os.environ.get("TMPDIR", "/tmp"), "d42-model-mutation", "lean")
MUTS = [
 ("val-int-min-nonstrict", "D42/Model/Validate.lean", "| some m => if n < m then [Err.min p v (.int m)]", "| some m => if n ≤ m then [Err.min p v (.int m)]"),
 ("val-elem-path-off-by-one", "D42/Model/Validate.lean", "    validateP env sub s x (p ++ [.idx i]) ++ validateElemsP env sub ss xs (i + 1) a p", "    validateP env sub s x (p ++ [.idx (i + 1)]) ++ validateElemsP env sub ss xs (i + 1) a p"),
 ("val-extra-keys-ignored", "D42/Model/Validate.lean", "       (if ell.isSome then [] else\n          (kvs.filter (fun kv => !(hasField kv.1 fs))).map (fun kv => Err.extraKey p a kv.1))\n     | _ => [Err.type p a .dict])", "       (if ell.isSome then [] else [])\n     | _ => [Err.type p a .dict])"),
 ("val-missing-key-when-optional", "D42/Model/Validate.lean", "     | none => if opt || sub then [] else [Err.missingKey p a k]) ++", "     | none => if sub then [] else [Err.missingKey p a k]) ++"),
 ("val-extra-elems-shift", "D42/Model/Validate.lean", "  (List.range' from_ (to - from_)).map (fun i => Err.extraElem p a i)", "  (List.range' from_ (to - from_)).map (fun i => Err.extraElem p a (i + 1))"),
 ("gen-int-upper-plus-one", "D42/Model/Gen.lean", "      let n ← randint lo hi\n      pure (.int n)", "      let n ← randint lo (hi + 1)\n      pure (.int n)"),
 ("gen-float-grid-floor-to-ceil", "D42/Model/Gen.lean", "    let r ← liftE (decFloor stop stopDec p)", "    let r ← liftE (decCeil stop stopDec p)"),
 ("subst-keeps-optional-on-given", "D42/Model/Subst.lean", "      | some x => do let s' ← subst env s x; pure (k, false, s')", "      | some x => do let s' ← subst env s x; pure (k, opt, s')"),
 ("fromnative-bool-as-int", "D42/Model/Subst.lean", "  | .bool b => .ok (.scalar (.bool (some b)))", "  | .bool b => .ok (.scalar (.int (some (if b then 1 else 0)) none none))"),
 ("fromnative-accepts-any-uuid", "D42/Model/Subst.lean", "  | .uuid i ver => if ver = 4 then .ok (.scalar (.uuid4 (some (i, ver)))) else .error .valueError", "  | .uuid i ver => .ok (.scalar (.uuid4 (some (i, ver))))"),
 ("repr-len-drops-max", "D42/Model/Repr.lean", "  | none, some a, some b => [.t \".len(\", reprInt a, .t \", \", reprInt b, .t \")\"]", "  | none, some a, some _ => [.t \".len(\", reprInt a, .t \", ...)\"]"),
 ("eq-ignores-optional", "D42/Model/Eq.lean", "     | some f => (o == f.2.1) && pyEq env s f.2.2", "     | some f => pyEq env s f.2.2"),
 ("decl-list-call-after-len", "D42/Model/Decl.lean", "  | .listU L, .call (.sch t) => if L.anySet then DErr else .ok (.listT t L)", "  | .listU L, .call (.sch t) => .ok (.listT t L)"),
 ("decl-upsert-appends", "D42/Model/Decl.lean", "  if hasField k fs then fs.map (fun f => if f.1 == k then (k, o, s) else f) else fs ++ [(k, o, s)]", "  fs ++ [(k, o, s)]"),
 ("rollout-upsert-appends-duplicate", "D42/Model/Rollout.lean", "  if (rlookup k d).isSome then d.map (fun kv => if kv.1 = k then (k, v) else kv) else d ++ [(k, v)]", "  d ++ [(k, v)]"),
 ("migrate-drops-one-more-line", "D42/Model/Migrate.lean", "  lines.take s ++ repl' ++ lines.drop (e + 1)", "  lines.take s ++ repl' ++ lines.drop (e + 2)"),
 ("history-store-replaces-last", "D42/Model/History.lean", "  | .ok s => (pool ++ [s], .stored pool.length)", "  | .ok s => (pool.dropLast ++ [s], .stored (pool.length - 1))"),
 ("format-missing-key-no-path-ext", "D42/Model/Format.lean", "  | .missingKey p _ k => .ok ⟨\"missingkey\", p ++ [.key k], none⟩", "  | .missingKey p _ _ => .ok ⟨\"missingkey\", [], none⟩"),
 ("regex-any-accepts-newline", "D42/Model/RegexMatch.lean", "  | .any, s => (match s with | [c] => c != 10 | _ => false)", "  | .any, s => (match s with | [_] => true | _ => false)"),
]
def main():
    only = sys.argv[1:]
    res = json.load(open(RESULTS)) if os.path.exists(RESULTS) else {}
    for name, f, old, new in MUTS:
        if old is None or (only and name not in only) or (not only and name in res):
            continue
        if os.path.exists(DST):
            shutil.rmtree(DST)
        shutil.copytree(SRC, DST)
        p = os.path.join(DST, f)
        s = open(p).read()
        if s.count(old) != 1:
            res[name] = {"error": f"pattern occurs {s.count(old)} times"}
            print(name, res[name]); continue
        open(p, "w").write(s.replace(old, new))
        t = time.time()
        r = subprocess.run("lake build D42 2>&1", shell=True, cwd=DST, stdout=subprocess.PIPE)
        out = r.stdout.decode()
        failed = sorted(set(re.findall(r"^✖ \[\d+/\d+\] Building (D42\.[\w.]+)", out, re.M)))
        errs = sorted(set(re.findall(r"^error: (D42/[\w/]+\.lean)", out, re.M)))
        res[name] = {"file": f, "broken_modules": failed or errs, "build_ok": r.returncode == 0, "secs": round(time.time() - t)}
        print(name, res[name], flush=True)
        json.dump(res, open(RESULTS, "w"), indent=1)
    shutil.rmtree(DST, ignore_errors=True)
main()
