#!/usr/bin/env python3
"""Regenerate harness/pins.json from /repo (run deliberately, after the model has been compared with the current source:
./tools_precommit.sh must pass on that tree). Never run by a check."""
import sys
import os
sys.path.insert(0, os.path.dirname(os.path.abspath(__file__)))
from harness import pins  # noqa: E402

if __name__ == "__main__":
    p = pins.regenerate()
    print("pinned", len(p), "files")
