#!/usr/bin/env python3
"""Run every seeded mutant against every check (quick tier) and record which checks raise an alarm.
Applies each patch to the repository named by D42_REPO (default /repo), runs the checks, reverts. Writes seeded/<name>/meta.json:detected_by and seeded/MATRIX.md."""
import json
import os
import subprocess
import sys

HERE = os.path.dirname(os.path.abspath(__file__))
IDS = ["C%02d" % i for i in range(1, 20)]
REPO = os.environ.get("D42_REPO", "/repo")


def main():
    only = sys.argv[1:]
    allnames = sorted(d for d in os.listdir(os.path.join(HERE, "seeded")) if os.path.isdir(os.path.join(HERE, "seeded", d)))
    names = [n for n in allnames if n in only] if only else allnames
    for name in names:
        d = os.path.join(HERE, "seeded", name)
        meta = json.load(open(os.path.join(d, "meta.json")))
        st = subprocess.run(f"git -C {REPO} status --porcelain", shell=True, stdout=subprocess.PIPE).stdout.decode()
        assert not st.strip(), REPO + " not clean"
        subprocess.check_call(f"git -C {REPO} apply {d}/patch.diff", shell=True)
        det = {}
        try:
            procs = {c: subprocess.Popen(f"./check {c} --tier quick", shell=True, cwd=HERE, stdout=subprocess.PIPE,
                                         stderr=subprocess.STDOUT) for c in IDS}
            for c, p in procs.items():
                out = p.communicate()[0].decode(errors="replace")
                line = [l for l in out.splitlines() if l.startswith("VIOLATION")]
                if p.returncode == 1 and line:
                    det[c] = "no-failing-input-found" if line[-1].endswith("no-failing-input-found") else "failing-input"
                elif p.returncode not in (0, 1):
                    det[c] = "error(exit %d)" % p.returncode
                    os.makedirs(os.path.join(os.environ.get("TMPDIR", "/tmp"), "d42-matrix-errors"), exist_ok=True)
                    with open(os.path.join(os.environ.get("TMPDIR", "/tmp"), "d42-matrix-errors", f"{name}.{c}.log"), "w") as f:
                        f.write(out[-6000:])
        finally:
            subprocess.check_call(f"git -C {REPO} checkout -- .", shell=True)
        meta["detected_by"] = det
        json.dump(meta, open(os.path.join(d, "meta.json"), "w"), indent=1)
        print(name, meta["property"], det.get(meta["property"], "MISSED"), det, flush=True)
    rows = []
    for name in allnames:      # the table always lists every stored change (from the recorded results)
        meta = json.load(open(os.path.join(HERE, "seeded", name, "meta.json")))
        det = meta.get("detected_by", {})
        rows.append((name, meta["property"], det.get(meta["property"], "MISSED"),
                     ", ".join(f"{k}({v[0]})" for k, v in sorted(det.items()) if k != meta["property"])))
    with open(os.path.join(HERE, "seeded", "MATRIX.md"), "w") as f:
        f.write("| seeded change | property | its own check | other checks that raise an alarm (f = failing input, n = no-failing-input-found) |\n|---|---|---|---|\n")
        for r in rows:
            f.write("| %s | %s | %s | %s |\n" % r)


if __name__ == "__main__":
    main()
