#!/usr/bin/env python3
"""Regenerates MANIFEST.json from the per-property metadata in harness/props/*.py (MANIFEST dicts)."""
import importlib
import json
import os
import sys

HERE = os.path.dirname(os.path.abspath(__file__))
sys.path.insert(0, HERE)
IDS = ["C%02d" % i for i in range(1, 20)]


def main():
    try:
        import niltype  # noqa: F401  (the props modules import d42)
    except ImportError:
        os.execv("/venv/bin/python", ["/venv/bin/python", os.path.abspath(__file__)] + sys.argv[1:])
    checks, na = [], []
    for pid in IDS:
        try:
            m = importlib.import_module(f"harness.props.{pid}")
            meta = m.MANIFEST
        except Exception as e:  # noqa: BLE001
            raise SystemExit(f"cannot load harness.props.{pid}: {type(e).__name__}: {e}")
        checks.append({
            "property_id": pid,
            "quick_cmd": f"./check {pid} --tier quick",
            "thorough_cmd": f"./check {pid} --tier thorough",
            "evidence_file": f"evidence/{pid}.json",
            "replay_cmd_template": f"./check {pid} --replay {{path}}",
            "engine": "lean4-proof+correspondence",
            "level_claimed": {"category": meta.get("category", "proof"), "text": meta["text"],
                              "design_ref": meta.get("design_ref", f"DESIGN.md §3 {pid}")},
            "level_note": meta["note"],
            "technique": meta["technique"],
        })
    man = {
        "version": 1,
        "setup_cmd": "/venv/bin/python tools_regen.py && cd lean && lake build D42 d42model",
        "hooks": {"guard": "D42_VERIF", "enable": "no source hooks are needed: randomness, clock and uuid sources are "
                  "rebound by the harness in its own process (constructor injection + module globals)",
                  "baseline_off_cmd": "cd /repo && /venv/bin/python -m pytest -ra -q -p no:cacheprovider --timeout=900 --continue-on-collection-errors",
                  "source_commits": [], "add_only": True},
        "engines": [{"name": "lean4-proof+correspondence", "path": "lean/ + harness/",
                     "serves_properties": [c["property_id"] for c in checks],
                     "kind_free_text": "Lean 4 model + theorems (lake build, #print axioms audit), translators regenerating "
                                       "Lean tables from the source, differential correspondence model vs implementation, "
                                       "model-free oracle search for failing inputs"}],
        "checks": checks,
        "not_applicable": na,
        "notes": "See DESIGN.md. Known findings: known_findings.json. Seeded breaking changes: seeded/.",
    }
    with open(os.path.join(HERE, "MANIFEST.json"), "w") as f:
        json.dump(man, f, indent=1)
    print(f"{len(checks)} checks, {len(na)} not applicable")


if __name__ == "__main__":
    main()
