#!/usr/bin/env python3
"""Apply seeded/<name>/patch.diff to /repo, run the given checks (quick tier), undo the patch. Never commits.
usage: tools_try_seed.py <name> <check> [<check> ...]   (VERIF_SEED honoured)"""
import json
import os
import subprocess
import sys

HERE = os.path.dirname(os.path.abspath(__file__))


def main():
    name, checks = sys.argv[1], sys.argv[2:]
    patch = os.path.join(HERE, "seeded", name, "patch.diff")
    st = subprocess.run("git -C /repo status --porcelain", shell=True, stdout=subprocess.PIPE).stdout.decode()
    assert not st.strip(), "/repo is not clean:\n" + st
    subprocess.check_call(f"git -C /repo apply {patch}", shell=True)
    results = {}
    try:
        for c in checks:
            p = subprocess.run(f"./check {c} --tier quick", shell=True, cwd=HERE, stdout=subprocess.PIPE, stderr=subprocess.STDOUT)
            out = p.stdout.decode(errors="replace")
            line = [l for l in out.splitlines() if l.startswith(("VIOLATION", "OK "))]
            results[c] = (p.returncode, line[-1] if line else out[-300:])
            print(c, p.returncode, results[c][1])
    finally:
        subprocess.check_call("git -C /repo checkout -- .", shell=True)
        # the checks regenerated lean/D42/Gen/*.lean from the CHANGED tree: put back what the clean tree says, so that a later
        # `git add -A` in /verif cannot commit a model of the seeded change
        subprocess.call(["/venv/bin/python", os.path.join(HERE, "tools_regen.py")], stdout=subprocess.DEVNULL, stderr=subprocess.DEVNULL)
    return 0


if __name__ == "__main__":
    sys.exit(main())
