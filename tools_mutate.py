#!/usr/bin/env python3
"""Systematic mutation run (not a registered check): classic first-order mutants of the anchored source files, each applied in
a scratch worktree of /repo; a mutant the unedited test suite does not kill is run against all 19 quick checks (pointed at the
worktree through D42_REPO). Survivors of BOTH are written to mutation/SURVIVORS.md for triage (equivalent mutant, outside every
property, or a gap to close). usage: tools_mutate.py [--limit N] [--files a.py,b.py] [--seed S]"""
import ast
import copy
import json
import os
import random
import subprocess
import sys
import time

HERE = os.path.dirname(os.path.abspath(__file__))
WT = os.path.join(os.environ.get("TMPDIR", "/tmp"), "d42-mut")
OUT = os.path.join(HERE, "mutation")
IDS = ["C%02d" % i for i in range(1, 20)]
FILES = ["d42/validation/_validator.py", "d42/substitution/_substitutor.py", "d42/substitution/_validator.py",
         "d42/generation/_generator.py", "d42/generation/_regex_generator.py", "d42/generation/_random.py",
         "d42/representation/_representor.py", "d42/declaration/types/_str_schema.py", "d42/declaration/types/_int_schema.py",
         "d42/declaration/types/_float_schema.py", "d42/declaration/types/_list_schema.py", "d42/declaration/types/_dict_schema.py",
         "d42/declaration/types/_any_schema.py", "d42/declaration/_props.py", "d42/utils/_rollout.py", "d42/utils/_from_native.py",
         "d42/utils/_make_required.py", "d42/validation/_formatter.py", "d42/validation/__init__.py", "d42/migration/migrate_v1_to_v2.py",
         "d42/custom_type/_custom_type.py", "d42/declaration/types/_schema.py", "d42/declaration/types/_type_alias_schema.py",
         "d42/declaration/__init__.py"]

CMP = {ast.Lt: ast.LtE, ast.LtE: ast.Lt, ast.Gt: ast.GtE, ast.GtE: ast.Gt, ast.Eq: ast.NotEq, ast.NotEq: ast.Eq,
       ast.Is: ast.IsNot, ast.IsNot: ast.Is, ast.In: ast.NotIn, ast.NotIn: ast.In}
BIN = {ast.Add: ast.Sub, ast.Sub: ast.Add, ast.Mult: ast.FloorDiv, ast.FloorDiv: ast.Mult}


def sites(tree):
    """(node path id, kind, description) for every mutable site"""
    out = []
    for node in ast.walk(tree):
        if isinstance(node, ast.Compare):
            for i, op in enumerate(node.ops):
                if type(op) in CMP:
                    out.append((node, ("cmp", i)))
        elif isinstance(node, ast.BoolOp):
            out.append((node, ("bool",)))
        elif isinstance(node, ast.UnaryOp) and isinstance(node.op, ast.Not):
            out.append((node, ("not",)))
        elif isinstance(node, ast.BinOp) and type(node.op) in BIN:
            out.append((node, ("bin",)))
        elif isinstance(node, ast.Constant) and isinstance(node.value, int) and not isinstance(node.value, bool) and abs(node.value) <= 64:
            out.append((node, ("const", +1)))
            if node.value != 0:
                out.append((node, ("const", -1)))
        elif isinstance(node, ast.Constant) and isinstance(node.value, bool):
            out.append((node, ("flip",)))
        elif isinstance(node, ast.If):
            out.append((node, ("iftrue",)))
            out.append((node, ("iffalse",)))
        elif isinstance(node, (ast.Continue, ast.Break)):
            out.append((node, ("loopctl",)))
        elif isinstance(node, ast.Return) and node.value is not None and not isinstance(node.value, ast.Constant):
            pass
    return out


def apply(tree, idx):
    t = copy.deepcopy(tree)
    node, kind = sites(t)[idx]
    line = getattr(node, "lineno", 0)
    if kind[0] == "cmp":
        old = type(node.ops[kind[1]]).__name__
        node.ops[kind[1]] = CMP[type(node.ops[kind[1]])]()
        desc = f"{old} -> {type(node.ops[kind[1]]).__name__}"
    elif kind[0] == "bool":
        old = type(node.op).__name__
        node.op = ast.Or() if isinstance(node.op, ast.And) else ast.And()
        desc = f"{old} -> {type(node.op).__name__}"
    elif kind[0] == "not":
        node.op = ast.UAdd()          # `not x` -> `+x` would change type; use identity via bool(): replace by operand
        desc = "not removed"
        for parent in ast.walk(t):
            for f, v in ast.iter_fields(parent):
                if v is node:
                    setattr(parent, f, node.operand)
                elif isinstance(v, list) and node in v:
                    v[v.index(node)] = node.operand
    elif kind[0] == "bin":
        old = type(node.op).__name__
        node.op = BIN[type(node.op)]()
        desc = f"{old} -> {type(node.op).__name__}"
    elif kind[0] == "const":
        desc = f"{node.value} -> {node.value + kind[1]}"
        node.value = node.value + kind[1]
    elif kind[0] == "flip":
        desc = f"{node.value} -> {not node.value}"
        node.value = not node.value
    elif kind[0] in ("iftrue", "iffalse"):
        desc = "if-condition -> " + ("True" if kind[0] == "iftrue" else "False")
        node.test = ast.Constant(kind[0] == "iftrue")
    elif kind[0] == "loopctl":
        desc = type(node).__name__ + " swapped"
        new = ast.Break() if isinstance(node, ast.Continue) else ast.Continue()
        for parent in ast.walk(t):
            for f, v in ast.iter_fields(parent):
                if isinstance(v, list) and node in v:
                    v[v.index(node)] = ast.copy_location(new, node)
    ast.fix_missing_locations(t)
    return t, line, desc


def sh(cmd, cwd=None, env=None, timeout=900):
    p = subprocess.run(cmd, shell=True, cwd=cwd, env=env, stdout=subprocess.PIPE, stderr=subprocess.STDOUT, timeout=timeout)
    return p.returncode, p.stdout.decode(errors="replace")


def main():
    args = sys.argv[1:]
    limit = int(args[args.index("--limit") + 1]) if "--limit" in args else 10 ** 9
    files = args[args.index("--files") + 1].split(",") if "--files" in args else FILES
    rnd = random.Random(int(args[args.index("--seed") + 1]) if "--seed" in args else 0)
    os.makedirs(OUT, exist_ok=True)
    sh(f"git -C /repo worktree remove --force {WT}")
    rc, out = sh(f"git -C /repo worktree add --detach {WT} HEAD -q")
    assert rc == 0, out
    results_path = os.path.join(OUT, "results.jsonl")
    done = set()
    if os.path.exists(results_path):
        for l in open(results_path):
            r = json.loads(l)
            done.add((r["file"], r["site"]))
    work = []
    for f in files:
        src = open(os.path.join(WT, f)).read()
        tree = ast.parse(src)
        for i in range(len(sites(tree))):
            if (f, i) not in done:
                work.append((f, i))
    rnd.shuffle(work)
    env = dict(os.environ, D42_REPO=WT)
    n = 0
    try:
        for f, i in work:
            if n >= limit:
                break
            path = os.path.join(WT, f)
            orig = open(path).read()
            try:
                t, line, desc = apply(ast.parse(orig), i)
                new = ast.unparse(t) + "\n"
                compile(new, f, "exec")
            except Exception as e:  # noqa: BLE001
                continue
            open(path, "w").write(new)
            rec = {"file": f, "site": i, "line": line, "mutation": desc}
            try:
                t0 = time.time()
                rc, out = sh("/venv/bin/python -m pytest -q -p no:cacheprovider -x -q 2>&1 | tail -3", cwd=WT, timeout=600)
                killed_by_tests = " passed" not in out or "failed" in out or "error" in out.lower()
                rec["tests"] = "killed" if killed_by_tests else "survived"
                if not killed_by_tests:
                    procs = {c: subprocess.Popen(f"./check {c} --tier quick", shell=True, cwd=HERE, env=env, stdout=subprocess.PIPE,
                                                 stderr=subprocess.STDOUT) for c in IDS}
                    det = {}
                    for c, p in procs.items():
                        o = p.communicate()[0].decode(errors="replace")
                        v = [l for l in o.splitlines() if l.startswith("VIOLATION")]
                        if p.returncode == 1 and v:
                            det[c] = "nfi" if v[-1].endswith("no-failing-input-found") else "fi"
                        elif p.returncode not in (0, 1):
                            det[c] = "exit%d" % p.returncode
                    rec["checks"] = det
                rec["secs"] = round(time.time() - t0, 1)
            finally:
                open(path, "w").write(orig)
            with open(results_path, "a") as fh:
                fh.write(json.dumps(rec) + "\n")
            n += 1
            print(n, f, line, desc, rec.get("tests"), rec.get("checks"), flush=True)
    finally:
        sh(f"git -C /repo worktree remove --force {WT}")
        sh("git -C /repo worktree prune")
    summarize()


def summarize():
    rs = [json.loads(l) for l in open(os.path.join(OUT, "results.jsonl"))]
    surv_tests = [r for r in rs if r.get("tests") == "survived"]
    caught = [r for r in surv_tests if any(v in ("fi", "nfi") for v in r.get("checks", {}).values())]
    fi = [r for r in surv_tests if any(v == "fi" for v in r.get("checks", {}).values())]
    surv = [r for r in surv_tests if not any(v in ("fi", "nfi") for v in r.get("checks", {}).values())]
    with open(os.path.join(OUT, "SURVIVORS.md"), "w") as f:
        f.write(f"mutants run: {len(rs)}; killed by the repository's tests: {len(rs) - len(surv_tests)}; survived the tests: {len(surv_tests)}; "
                f"of those reported by at least one check: {len(caught)} (with a failing input: {len(fi)}); survived everything: {len(surv)}\n\n")
        f.write("| file | line | mutation | checks that errored |\n|---|---|---|---|\n")
        for r in sorted(surv, key=lambda r: (r["file"], r["line"])):
            f.write(f"| {r['file']} | {r['line']} | {r['mutation']} | {', '.join(k for k, v in r.get('checks', {}).items())} |\n")
    print(open(os.path.join(OUT, "SURVIVORS.md")).read()[:600])


if __name__ == "__main__":
    if "--summarize" in sys.argv:
        summarize()
    else:
        main()
