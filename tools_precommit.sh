#!/bin/sh
# what I run before committing: full lake build from the root module (catches cross-file name clashes that per-property
# builds cannot see), MANIFEST regeneration + schema validation, every quick check once on the current tree.
set -e
cd "$(dirname "$0")"
# the generated Lean files must describe the clean /repo, whatever run touched them last
test -z "$(git -C /repo status --porcelain)" || { echo "/repo is not clean"; exit 1; }
/venv/bin/python tools_regen.py > /dev/null
(cd lean && lake build D42 d42model 2>&1 | grep -i "error" && exit 1 || true)
/venv/bin/python tools_manifest.py
python3-vt - <<'PY'
import json, jsonschema, glob
jsonschema.validate(json.load(open('MANIFEST.json')), json.load(open('/root/.vp/MANIFEST.schema.json')))
PY
fail=0
for i in 01 02 03 04 05 06 07 08 09 10 11 12 13 14 15 16 17 18 19; do
  (./check C$i > /tmp/.precommit_C$i.log 2>&1; echo "C$i exit $?" ) &
done
wait
python3-vt - <<'PY'
import json, jsonschema, glob
sch=json.load(open('/root/.vp/EVIDENCE.schema.json'))
for f in sorted(glob.glob('evidence/C*.json')):
    jsonschema.validate(json.load(open(f)), sch)
print("evidence valid:", len(glob.glob('evidence/C*.json')))
PY
grep -L "^OK property" /tmp/.precommit_C*.log || true
rm -f /tmp/.precommit_C*.log
# and again after the checks (they regenerate too; this is what gets committed)
/venv/bin/python tools_regen.py > /dev/null
git status --short lean/D42/Gen | sed "s/^/generated file changed: /"
