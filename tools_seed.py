#!/usr/bin/env python3
"""Confirm a sub-agent's seeded breaking change in its scratch worktree and store it under seeded/<name>/.
usage: tools_seed.py <worktree> <name> <property> 
Checks (all run in the scratch worktree, never in /repo): suite passes with the change; demo.py fails with the change and
passes without it."""
import json
import os
import subprocess
import sys

HERE = os.path.dirname(os.path.abspath(__file__))
PY = "/venv/bin/python"


def sh(cmd, cwd):
    p = subprocess.run(cmd, shell=True, cwd=cwd, stdout=subprocess.PIPE, stderr=subprocess.STDOUT)
    return p.returncode, p.stdout.decode(errors="replace")


def main():
    wt, name, prop = sys.argv[1:4]
    rc, diff = sh("git diff -- d42", wt)
    assert diff.strip(), "no change under d42/"
    rc_t, out_t = sh(f"{PY} -m pytest -q -p no:cacheprovider -x 2>&1 | tail -2", wt)
    suite_ok = " passed" in out_t and "failed" not in out_t
    rc_with, out_with = sh(f"{PY} demo.py", wt)
    # NOTE: `git stash` is shared by all worktrees of a repository — never use it here (other worktrees may be
    # stashing at the same time); reverse-apply the diff instead.
    patch_path = os.path.join(wt, ".seed_patch.diff")
    open(patch_path, "w").write(diff)
    rc_r, out_r = sh(f"git apply -R {patch_path}", wt)
    assert rc_r == 0, out_r
    try:
        rc_without, out_without = sh(f"{PY} demo.py", wt)
    finally:
        rc_a, out_a = sh(f"git apply {patch_path}", wt)
        assert rc_a == 0, out_a
        os.remove(patch_path)
    ok = suite_ok and rc_with != 0 and rc_without == 0
    print(f"suite_ok={suite_ok} demo_with={rc_with} demo_without={rc_without} -> {'CONFIRMED' if ok else 'REJECTED'}")
    if not ok:
        print(out_t[-500:], out_with[-800:], out_without[-800:])
        return 1
    d = os.path.join(HERE, "seeded", name)
    os.makedirs(d, exist_ok=True)
    open(os.path.join(d, "patch.diff"), "w").write(diff)
    open(os.path.join(d, "demo.py"), "w").write(open(os.path.join(wt, "demo.py")).read())
    notes = ""
    if os.path.exists(os.path.join(wt, "NOTES.md")):
        notes = open(os.path.join(wt, "NOTES.md")).read()
        open(os.path.join(d, "NOTES.md"), "w").write(notes)
    meta = {"name": name, "property": prop, "files": [l[6:] for l in diff.splitlines() if l.startswith("+++ b/")],
            "needs_to_manifest": "see NOTES.md", "confirmed": {
                "suite_with_change": out_t.strip().splitlines()[-1] if out_t.strip() else "",
                "demo_with_change_exit": rc_with, "demo_without_change_exit": rc_without,
                "ran": [f"cd {wt} && {PY} -m pytest -q -p no:cacheprovider", f"cd {wt} && {PY} demo.py (with and, via git stash, without the change)"]},
            "detected_by": []}
    json.dump(meta, open(os.path.join(d, "meta.json"), "w"), indent=1)
    return 0


if __name__ == "__main__":
    sys.exit(main())
